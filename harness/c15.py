"""C15 -- array back-ends agree with NumPy; functions marked `batchable` really are batchable.

Three ties between earthkit.workflows.backends and the Coq development:
  (T) translate/batchable.py regenerates gen/Batchable.v (marker table + dispatch tables) on every run; the
      theorems of Props/C15.v are re-checked against it.  Here the table is also compared with the markers seen at
      run time (getattr(f, "batchable")).
  (O) property oracle on the implementation, two parts:
        values : every operation, on numpy arrays / xr.DataArray / xr.Dataset, against NumPy applied to the same
                 data, axis and indices (exactly on integer-valued data, within a few ulp otherwise, counted apart);
        batch  : for every function that carries the marker AT RUN TIME, random partitions of 2..6 arguments:
                 f(g(b1),...,g(bk)) == f(all), g = f on batches of >= 2, identity on singletons (as reduce() batches).
  (R) correspondence: the same calls + observed results are written as Gallina literals and the model
      (Backends/Ops.v `apply`) is evaluated on them inside Coq (vm_compute) by Backends/OpsCheck.v `check_case`.
      Typed: every argument carries its element type, the model converts the arguments to NumPy's common type
      (Backends/Dtype.v `promote_list`, `cast`) before the exact operation and predicts the element type of the
      result (Backends/DtypeCheck.v `check_case_d`).

Inputs (what a case varies): operation and form, back-end, number of arguments, shapes (equal, or broadcastable
for stack and the binary operations), the element type OF EACH ARGUMENT (equal or mixed, narrower or wider first),
value range (small numbers for arithmetic; the full range of each type, halves and large magnitudes for the
operations that only move or compare values), memory layout of the arguments (C, Fortran, strided view, read-only),
one object passed in two positions, the same call repeated on the same objects, axis / index in every legal form
(int, NumPy integer scalar, 0-d array, list, list of NumPy integers, integer arrays of every integer type); the index
SEQUENCES of take by structure, not only random positions (gen_take_idx: ascending runs, runs permuted / rotated / reversed /
with repeated positions, constant steps, permutations of the whole axis, one position repeated, the ends, more positions
than the axis has, one, none, positions counted from the end mixed in), every family on every back-end (gen_take_sweep), and
EVERY sequence of up to 3 (thorough: 4) positions over an axis of up to 3 (4) elements (gen_take_exhaustive); xarray's take by
position (isel, the default, named or not) and by label (sel: the labels at those positions; no index: positions); for xarray objects also HOW EACH ARGUMENT STORES ITS
DIMENSIONS: the names (any, not d0 < d1 < ...), the order (every argument, and each variable of a Dataset, may hold the same
named dimensions in another order: a .transpose()d field), index coordinates (present / absent, the same labels held in
another order by some argument), array names / attributes / scalar coordinates, dask-chunked data, arguments with fewer
dimensions than the first (broadcast by name); the axis of a single-argument reduction by name, by a list of names or by
position.  xarray matches arguments by dimension NAME and index LABEL: the NumPy reference is taken on the data brought to
one common order, the result is compared by name (and, where every argument is stored in the same order, also on the order
of its dimensions).  The named model Backends/Named.v resolves names to axes inside Coq (`check_xcase`)."""
import importlib.util
import math
import warnings
from fractions import Fraction
from pathlib import Path

import numpy as np

from common import PY, ROOT, REPO, clist, coq_results, cstr, load_corpus

TRUSTED = [
    "translate/batchable.py (ast translator for backends/__init__.py, arrayapi.py, xarray.py; its marker table is compared with the run-time `batchable` attributes on every run)",
    "OpsCheck.v glue: flat row-major data -> nested tensors, rational comparison with the tolerance the harness supplies",
    "the first sentence of C15 ('= the value NumPy gives') has no theorem: Backends/Ops.v is the exact-arithmetic reference, tied to numpy, to ArrayAPIBackend and to XArrayBackend by value correspondence (sampled)",
    "NamedCheck.v glue: the model's result is re-stored in the observed dimension order (Named.v align) before the comparison; for the variables of a Dataset the order itself is not compared",
    "numpy 2.x, xarray and dask as installed in /venv (dask-chunked arguments get their own graph keys: xarray's token does not distinguish a C-ordered from a Fortran-ordered array with the same bytes)",
]
ASSUMPTIONS = [
    "values are exact rationals: floating-point rounding, NaN/inf, integer wrap-around and bool arithmetic are outside the model (compared with NumPy directly by the oracle, not with Coq)",
    "element types: bool, int8..int64, uint8..uint64, float32, float64 are modelled (common type, result type, conversion); float16 is compared with NumPy by the oracle only; conversions that round (64-bit integers to float64) are outside the model",
    "the result's element type is part of 'the value NumPy gives' (an int8 result where NumPy gives int32 wraps in the next operation): the oracle compares it",
    "stack is documented to broadcast its arguments (np.stack is not): for broadcastable shapes the reference is np.stack(np.broadcast_arrays(...)); a back-end that refuses them, as np.stack does, is not failed",
    "tensors in the theorems are valid (body conforms to shape) -- the invariant of a NumPy array; the checker verifies it for every emitted case",
    "'every partition into batches' is read as reduce()/_batch_transform batches: a batch of one argument is passed through unchanged (a single argument means 'reduce inside the array' in this library); at least two batches",
    "equality of results treats any two failures as equal (res_eqv): the error type of a shape mismatch may differ between batched and unbatched evaluation",
    "a single-argument reduction over SEVERAL axes at once (tuple of positions / list of dimension names) is not modelled: compared with NumPy by the oracle only",
    "general NumPy broadcasting is not modelled (binary operations: equal shapes or one 0-d/scalar operand; stack/reductions: equal shapes); broadcast cases are compared with NumPy by the oracle only",
    "xarray objects are modelled as tensors with named axes (Backends/Named.v): arguments are matched by dimension NAME whatever order each stores its dimensions in, and an argument lacking a dimension of the first is broadcast over it; 'the value NumPy gives for the same data' is read on the data brought to one common dimension order (and, for index coordinates, one common label order): that is xarray's data model, positions of a labelled array carry no meaning across arguments",
    "index labels are outside the Coq model: the harness undoes label permutations (by .sel on the result, by generating the permuted arguments from the unpermuted data) before the comparison in Coq; the oracle compares the implementation by label directly",
    "the ORDER of the dimensions of an xarray result is demanded only where every argument stores its dimensions in the same order (then: that order); for differently stored arguments the oracle compares by name (the new dimension of stack must still sit at `axis`), the Coq model predicts the first argument's order (DataArray)",
    "take: indices are an int, a NumPy integer scalar, a 0-d integer array, a list of ints / of NumPy integers (of one signedness), or a 1-d integer ndarray of any integer type, possibly empty (the documented domain: 'int or Array of int'); tuples are not exercised (xarray reads a tuple as a Variable spec), boolean masks are not (NumPy's take reads them as 0/1, xarray as a mask)",
    "take(..., method='sel') on an xarray object selects by index LABEL: 'the value NumPy gives for the same indices' is read as numpy.take at the positions that carry those labels (labels are distinct); on a dimension without an index xarray's sel counts positions, as isel does.  Labels are outside the Coq model: the case is emitted with the positions",
    "Backends/Slice.v (slice_op, take_fast) models what a back-end MAY do instead of fancy indexing; the repository's take does not slice, so these definitions are tied to the code only through take_op (C15_take_slice_shortcut_sound: the exact shortcut IS take_op)",
]

HEADER = """From Coq Require Import List NArith ZArith QArith Qcanon String.
From EKW Require Import Backends.Tensor Backends.Ops Backends.OpsCheck Backends.Dtype Backends.DtypeCheck Backends.Named Backends.NamedCheck.
Import ListNotations.
Open Scope string_scope.
"""

REDUCTIONS = ["sum", "prod", "min", "max", "mean", "std", "var"]
BINARY = {"add": "add", "subtract": "subtract", "multiply": "multiply", "divide": "divide", "pow": "power"}
INTS = ["int8", "int16", "int32", "int64"]
UINTS = ["uint8", "uint16", "uint32", "uint64"]
FLOATS = ["float32", "float64"]
MODEL_DTYPES = INTS + FLOATS                        # arithmetic on these is modelled (small values: nothing wraps)
EXTRA_DTYPES = ["bool"] + UINTS                     # arithmetic: oracle only (wrap-around / bool arithmetic not modelled)
ALL_DTYPES = ["bool"] + INTS + UINTS + FLOATS       # moving / comparing values of these is modelled
COQ_DTYPE = {"bool": "DBool", "int8": "DI8", "int16": "DI16", "int32": "DI32", "int64": "DI64", "uint8": "DU8",
             "uint16": "DU16", "uint32": "DU32", "uint64": "DU64", "float32": "DF32", "float64": "DF64"}
EXACT_OPS = {"sum", "prod", "min", "max", "add", "subtract", "multiply", "stack", "concat", "take"}
STRUCTURAL = {"stack", "concat", "take", "min", "max"}      # never round, whatever the data
LAYOUTS = ["c", "c", "c", "f", "strided", "reversed", "readonly"]
IDX_DTYPES = ["int8", "int16", "int32", "int64", "uint8", "uint16", "uint32", "uint64"]      # every integer type
SCALAR_IDX = ("int", "npint", "zerod")               # index forms that remove the dimension
# index sequences of take, by structure (a fast path for 'nice' index lists is wrong on the lists that only look nice)
TAKE_FAMILIES = ["random", "run", "run_perm", "run_repeat", "desc", "step", "full_perm", "repeat", "ends", "long", "single",
                 "empty", "allneg", "rotated"]
DIMS = ["d0", "d1", "d2", "d3"]
NAME_POOL = ["x", "y", "lat", "lon", "time", "step", "Z", "a", "d3", "d1", "d0", "number", "level", "new2", "dim_0"]
MULTI_FORMS = ("multi", "stack", "concat", "bin", "batch")      # forms in which several arrays meet


def B():
    with warnings.catch_warnings():
        warnings.simplefilter("ignore")
        from earthkit.workflows import backends
    return backends


# ----------------------------------------------------------------------------- generation
def gen_shape(rng, allow_zero=False, min_rank=0, max_rank=3):
    r = rng.choice([0, 1, 1, 2, 2, 2, 3, 3])
    r = max(min_rank, min(max_rank, r))
    sizes = [1, 2, 2, 3, 3, 4] + ([0] if allow_zero else [])
    s = [rng.choice(sizes) for _ in range(r)]
    while math.prod(s) > 36:
        s[rng.randrange(len(s))] = 2
    return s


def is_intlike(dt):
    return dt.startswith(("int", "uint", "bool"))


def wide_value(rng, dtype):
    """a value from the whole range of the type: extremes, halves (truncation shows), large and tiny magnitudes"""
    if dtype == "bool":
        return rng.random() < 0.5
    if is_intlike(dtype):
        ii = np.iinfo(dtype)
        lo, hi = int(ii.min), int(ii.max)
        return rng.choice([lo, lo + 1, hi - 1, hi, rng.randint(lo, hi), rng.randint(lo, hi), rng.randint(lo, hi),
                           max(lo, min(hi, rng.randint(-300, 300))), max(lo, -1), 0, 1])
    p, elo, ehi = {"float16": (11, -12, 4), "float32": (24, -40, 80), "float64": (53, -80, 300)}[dtype]
    r = rng.random()
    if r < 0.3:
        return rng.randint(-600, 600) / 2
    if r < 0.5:
        return float(rng.randint(-2 ** p + 1, 2 ** p - 1))
    m = rng.randint(-(2 ** p - 1), 2 ** p - 1) if rng.random() < 0.5 else rng.randint(-9, 9)
    return math.ldexp(m, rng.randint(elo, ehi))


def gen_data(rng, n, dtype, op, style):
    """flat python numbers, representable in dtype; unless style == 'wide' small enough that nothing wraps in the model domain"""
    if style == "wide":
        return [wide_value(rng, dtype) for _ in range(n)]
    lo, hi = (-2, 2) if op in ("prod", "pow") else (-4, 5)
    if dtype == "bool":
        return [rng.random() < 0.5 for _ in range(n)]
    if dtype.startswith("uint"):
        return [rng.randrange(0, 4 if op in ("prod", "pow") else 200) for _ in range(n)]
    if dtype.startswith("int"):
        return [rng.randint(lo, hi) for _ in range(n)]
    if style == "int":
        return [float(rng.randint(lo, hi)) for _ in range(n)]
    if style == "dyadic" or dtype == "float16":
        return [rng.randint(8 * lo, 8 * hi) / 8 for _ in range(n)]
    return [round(rng.uniform(lo, hi), 3) for _ in range(n)]      # not representable exactly: tolerance class


def norm_axis(ax, rank):
    return ax + rank if ax < 0 else ax


def dtypes_of(c):
    """element type of every argument (cases stored before the types could differ carry one `dtype`)"""
    return list(c.get("dtypes") or [c["dtype"]] * len(c["shapes"]))


def sub_shape(rng, full, ones):
    """a shape that broadcasts to `full`: a suffix of it, some sizes replaced by 1 if `ones`"""
    t = list(full[rng.randint(0, len(full)):])
    if ones:
        t = [1 if rng.random() < 0.3 else x for x in t]
    return t


def rank_of(c):
    return max(len(s) for s in c["shapes"])


def names_of(c):
    """the names of the dimensions, in the order the reference (NumPy on the canonical data) has them"""
    return list(c.get("names") or DIMS[:rank_of(c)])


def perm_of(c, i, var=0):
    """how argument i (variable `var` of a Dataset) stores its dimensions: held = canonical.transpose(perm)"""
    ps = c.get("perms_w" if var == 1 else "perms")
    r = len(c["shapes"][i])
    return list(ps[i]) if ps and ps[i] is not None else list(range(r))


def has_perms(c):
    return any(perm_of(c, i, v) != list(range(len(c["shapes"][i]))) for v in (0, 1) for i in range(len(c["shapes"])))


def has_lperms(c):
    return any(p != sorted(p) for lp in c.get("lperms") or [] for p in (lp or {}).values())


def rand_perm(rng, r, identity=0.35):
    p = list(range(r))
    if r >= 2 and rng.random() >= identity:
        while p == list(range(r)):
            rng.shuffle(p)
    return p


def gen_labels(rng, n):
    """index labels of one dimension: distinct, NOT necessarily sorted (ints ascending / shuffled / descending, strings), and
    integer labels that could be mistaken for positions (0..n-1 in another order, 1..n)"""
    kind = rng.choice(["asc", "asc", "shuffled", "desc", "str", "perm0", "rev0", "from1"])
    L = [10 * i + 5 for i in range(n)]
    if kind == "shuffled":
        rng.shuffle(L)
    elif kind == "desc":
        L.reverse()
    elif kind == "str":
        L = [f"m{(7 * i + 3) % 23}" for i in range(n)]
    elif kind == "perm0":
        L = list(range(n))
        rng.shuffle(L)
    elif kind == "rev0":
        L = list(range(n))[::-1]
    elif kind == "from1":
        L = list(range(1, n + 1))
    return L


def scalar_idx(c):
    return c["idx_kind"] in SCALAR_IDX


def gen_take_idx(rng, n, family, signed=True):
    """positions along an axis of n >= 1 elements (each in [-n, n-1]), by structure: an ascending run, a run permuted /
    rotated / reversed / with some of its positions repeated (as many positions as the run has: first, last and length
    alone do not tell it from the run), constant steps, a permutation of the whole axis, one position repeated, the two
    ends, more positions than the axis has, one position, none; any of them with some positions counted from the end"""
    L = min(n, rng.randint(2, max(2, min(n, 5))))
    lo = rng.randint(0, n - L)
    run = list(range(lo, lo + L))
    if family == "random":
        idx = [rng.randint(0, n - 1) for _ in range(rng.randint(1, 5))]
    elif family == "run":
        idx = run
    elif family == "run_perm":
        idx = list(run)
        for _ in range(8):
            rng.shuffle(idx)
            if idx != run:
                break
        if rng.random() < 0.4 and L >= 3:       # the ends in place, the inside permuted
            mid = run[1:-1]
            rng.shuffle(mid)
            idx = [run[0]] + mid + [run[-1]]
    elif family == "run_repeat":
        idx = [rng.choice(run) for _ in run]
        if rng.random() < 0.6:                  # the ends in place, the inside drawn with repeats
            idx[0], idx[-1] = run[0], run[-1]
        if rng.random() < 0.4:
            idx.sort()
    elif family == "desc":
        idx = run[::-1]
    elif family == "rotated":
        r = rng.randint(1, max(1, L - 1))
        idx = run[r:] + run[:r]
    elif family == "step":
        idx = list(range(rng.randint(0, min(1, n - 1)), n, rng.choice([2, 2, 3])))
        if rng.random() < 0.35:
            idx.reverse()
    elif family == "full_perm":
        idx = list(range(n))
        rng.shuffle(idx)
    elif family == "repeat":
        idx = [rng.randint(0, n - 1)] * rng.randint(2, 4)
    elif family == "ends":
        idx = rng.choice([[0, n - 1], [n - 1, 0], [0, n - 1, 0], [n - 1, n - 1, 0], [0, 0, n - 1]])
    elif family == "long":
        idx = [rng.randint(0, n - 1) for _ in range(rng.randint(n + 1, 2 * n + 1))]
    elif family == "single":
        idx = [rng.randint(0, n - 1)]
    elif family == "empty":
        idx = []
    elif family == "allneg":
        idx = [p - n if signed else p for p in (run if rng.random() < 0.6 else run[::-1])]
    else:
        raise ValueError(family)
    if signed and family != "allneg" and rng.random() < 0.3:
        idx = [p - n if rng.random() < 0.5 else p for p in idx]
    return idx


def take_shape(rng):
    """shape and axis of a take: the axis taken from has up to 6 elements (room for runs, steps, permutations)"""
    s = gen_shape(rng, min_rank=1)
    ax = rng.randint(-len(s), len(s) - 1)
    a = norm_axis(ax, len(s))
    s[a] = rng.choice([1, 2, 3, 4, 4, 5, 5, 6])
    while math.prod(s) > 48:
        j = rng.choice([i for i in range(len(s)) if i != a])
        s[j] = max(1, s[j] - 1)
    return s, ax


def take_args(rng, c, s, ax, xr_, family=None, kind=None, method=None, malformed=False):
    """the index argument of a take: structure (family), form (int, NumPy integer scalar, 0-d array, list, list of NumPy
    integers, ndarray), integer type, and -- xarray -- the selection method (positions: isel, the default, given or not;
    labels: sel)"""
    n = s[norm_axis(ax, len(s))]
    kind = kind or rng.choice(["int", "npint", "zerod", "list", "list", "nplist", "ndarray", "ndarray", "ndarray"])
    idt = "int64" if malformed else rng.choice(IDX_DTYPES)
    signed = not idt.startswith("uint")
    family = family or (rng.choice(TAKE_FAMILIES) if rng.random() < 0.7 else "random")
    if kind in SCALAR_IDX:
        idx = rng.choice([0, n - 1, -1, -n, rng.randint(-n, n - 1)]) if signed else rng.choice([0, n - 1, rng.randint(0, n - 1)])
        family = "scalar"
    elif family == "random":
        idx = [rng.randint(-n if signed else 0, n - 1) for _ in range(rng.randint(1, 5))]
    else:
        idx = gen_take_idx(rng, n, family, signed)
    if method is None and xr_:
        method = rng.choice([None, None, None, "isel", "sel", "sel"])
    c.update(shapes=[s], axis=ax, idx=idx, idx_kind=kind, idx_dtype=idt, idx_family=family, dim_by=rng.choice(["int", "name"]))
    if method and xr_:
        c["method"] = method


def force_label(rng, c, p=0.7):
    """selection by label needs labels: give the dimension taken from an index coordinate (most of the time; without
    one xarray's sel counts positions)"""
    if c.get("method") != "sel" or c["backend"] == "numpy" or rng.random() >= p:
        return
    names, rank = names_of(c), len(c["shapes"][0])
    a = norm_axis(c["axis"], rank)
    labels = dict(c.get("labels") or {})
    if names[a] not in labels:
        labels[names[a]] = gen_labels(rng, c["shapes"][0][a])
        c["labels"] = labels
    if c["backend"] == "dataset":
        c["dim_by"] = "name"


def decorate_xr(rng, c, perm_p=0.4, multi_arg=None):
    """xarray objects: how each argument holds its dimensions (names, storage order, index coordinates and the order of
    their labels, array name / attributes / scalar coordinates, dask chunks).  None of it changes the data."""
    if c["backend"] == "numpy":
        return
    k, n = len(c["shapes"]), rank_of(c)
    if len(c["shapes"][0]) != n:
        return
    multi_arg = (c["form"] in MULTI_FORMS and k >= 2) if multi_arg is None else multi_arg
    if n >= 1 and rng.random() < 0.35:
        c["names"] = rng.sample(NAME_POOL, n)
    if rng.random() < 0.3:
        c["newdim"] = rng.choice(["new", "N", "aaa", "zzz", "member"])
    if n >= 2 and rng.random() < perm_p:
        c["perms"] = [rand_perm(rng, len(s)) for s in c["shapes"]]
        if c["backend"] == "dataset":
            c["perms_w"] = [rand_perm(rng, len(s)) for s in c["shapes"]]
        if not has_perms(c):
            j = rng.choice([i for i, s in enumerate(c["shapes"]) if len(s) >= 2])
            c["perms"][j] = rand_perm(rng, len(c["shapes"][j]), identity=0.0)
    if n >= 1 and rng.random() < 0.3:
        names, full = names_of(c), list(c["shapes"][0])
        cd = norm_axis(c["axis"], n) if c["op"] == "concat" else None
        labels = {}
        for ax, d in enumerate(names):
            if rng.random() < 0.7:
                size = sum(s[ax] for s in c["shapes"]) if ax == cd else full[ax]
                labels[d] = gen_labels(rng, size)
        if labels:
            c["labels"] = labels
            if multi_arg and rng.random() < 0.45:
                lps = []
                for s in c["shapes"]:
                    lp = {}
                    off = n - len(s)
                    for ax, d in enumerate(names):
                        if d in labels and ax != cd and ax >= off and rng.random() < 0.6:
                            q = list(range(s[ax - off]))
                            rng.shuffle(q)
                            lp[d] = q
                    lps.append(lp)
                if any(p != sorted(p) for lp in lps for p in lp.values()):
                    c["lperms"] = lps
    if rng.random() < 0.3:
        c["deco"] = {"names": [rng.choice([None, "t2m", "u", "w", "f%d" % i]) for i in range(k)],
                     "attrs": [rng.choice([{}, {"units": "K"}, {"units": "m", "i": i}]) for i in range(k)],
                     "scalar": [rng.choice([0, 6, 12]) for _ in range(k)] if rng.random() < 0.5 else None}
    if rng.random() < 0.07 and all(math.prod(s) > 0 for s in c["shapes"]):
        # (not on empty arrays: dask's min/max over a new axis of EMPTY chunked arrays computes an array of another shape
        # than the one it announces -- a defect of the library, not of the back-end)
        c["chunked"] = [rng.random() < 0.7 for _ in range(k)]
    if c["backend"] == "dataset" and c["form"] == "take" and (c.get("perms") or c.get("labels")):
        c["dim_by"] = "name"        # an integer dim counts in the Dataset's own order of dimensions, which xarray derives from all its variables
    if c["form"] == "batch" and c.get("deco") and c["deco"].get("scalar"):
        # differing scalar coordinates are reduced away inside a batch and kept by a batch of one: outside the property
        c["deco"]["scalar"] = [c["deco"]["scalar"][0]] * k
    for i, j in c.get("alias") or []:
        for key in ("perms", "perms_w", "lperms", "chunked"):
            if c.get(key):
                c[key][j] = c[key][i]


def gen_case(rng, malformed=False):
    backend = rng.choice(["numpy", "numpy", "dataarray", "dataarray", "dataset"])
    form = rng.choice(["multi", "multi", "single", "single", "stack", "concat", "take", "bin", "bin"])
    mover = form in ("stack", "concat", "take")
    if mover:
        pool = ALL_DTYPES + ["float16"] if rng.random() < 0.6 else MODEL_DTYPES
    else:
        pool = MODEL_DTYPES if rng.random() < 0.85 else EXTRA_DTYPES
    dtype = rng.choice(pool)
    style = rng.choice(["int", "int", "dyadic", "real"])
    c = {"backend": backend, "form": form, "dtype": dtype}
    zero = rng.random() < 0.06
    if form in ("multi", "single"):
        op = rng.choice(REDUCTIONS)
        c["op"] = op
        if form == "multi":
            k = rng.randint(2, 6)
            s = gen_shape(rng, allow_zero=zero and op in ("sum", "prod", "min", "max"))
            c["shapes"] = [s] * k
            c["axis"] = rng.choice([None, None, 0, 1]) if backend == "numpy" else None   # overridden by the code
            if not malformed and len(s) >= 1 and rng.random() < 0.08:
                # arguments of fewer dimensions: xarray broadcasts them by name (the first argument has every dimension)
                c["shapes"] = [list(s)] + [sub_shape(rng, s, backend == "numpy") for _ in range(k - 1)]
                c["broadcast"] = any(t != s for t in c["shapes"])
        else:
            s = gen_shape(rng, allow_zero=zero and op in ("sum", "prod"), min_rank=rng.choice([0, 1, 1]))
            c["shapes"] = [s]
            c["axis"] = rng.choice([None] + list(range(-len(s), len(s)))) if s else None
            if backend == "dataarray":
                c["dim_by"] = rng.choice(["name", "name", "list", "axis"])
            elif backend == "dataset":
                c["dim_by"] = rng.choice(["name", "name", "list"])      # Dataset reductions refuse axis=
            if len(s) >= 2 and c["axis"] is not None and not malformed and rng.random() < 0.2:
                # several axes at once (a tuple of positions; for xarray a list of names), in any order, some counted from the end
                axes = rng.sample(range(len(s)), rng.randint(2, len(s)))
                c["axes"] = [a - len(s) if rng.random() < 0.3 else a for a in axes]
                if backend != "numpy":
                    c["dim_by"] = "list"
    elif form == "stack":
        c["op"] = "stack"
        k = rng.randint(1, 6)
        if not malformed and k >= 2 and rng.random() < 0.25:
            # broadcastable arguments (documented); xarray broadcasts by dimension name: the first argument has them all
            full = gen_shape(rng, min_rank=1, max_rank=3)
            if backend == "numpy":
                c["shapes"] = [sub_shape(rng, full, True) for _ in range(k)]
            else:
                c["shapes"] = [list(full)] + [sub_shape(rng, full, False) for _ in range(k - 1)]
            c["broadcast"] = True
            r = len(np.broadcast_shapes(*map(tuple, c["shapes"])))
            c["axis"] = rng.randint(-r - 1, r)
        else:
            s = gen_shape(rng, allow_zero=zero, max_rank=2)
            c["shapes"] = [s] * k
            c["axis"] = rng.randint(-len(s) - 1, len(s))
    elif form == "concat":
        c["op"] = "concat"
        s = gen_shape(rng, allow_zero=zero, min_rank=1)
        k = rng.randint(1, 6)
        ax = rng.randint(-len(s), len(s) - 1)
        a = norm_axis(ax, len(s))
        shapes = []
        for _ in range(k):
            t = list(s)
            t[a] = rng.choice([1, 1, 2, 3] + ([0] if zero else []))
            shapes.append(t)
        c["shapes"], c["axis"] = shapes, ax
    elif form == "take":
        c["op"] = "take"
        s, ax = take_shape(rng)
        take_args(rng, c, s, ax, backend != "numpy", malformed=malformed)
    else:
        op = rng.choice(list(BINARY))
        c["op"] = op
        s = gen_shape(rng, allow_zero=zero)
        second = rng.choice(["array", "array", "array", "scalar", "zerod", "bcast"])
        if second == "bcast" and (malformed or not s):
            second = "array"
        if second == "bcast":
            c["shapes"] = [s, sub_shape(rng, s, backend == "numpy")]
            c["broadcast"] = True
        else:
            c["shapes"] = [s, s if second == "array" else []]
        c["second"] = second
        c["axis"] = None
    op = c["op"]
    k = len(c["shapes"])
    # element types: one for all arguments, or one per argument (narrower first, wider first, unrelated)
    dts = [dtype] * k
    if k >= 2 and rng.random() < 0.5:
        mix = pool if mover else (MODEL_DTYPES if rng.random() < 0.7 else ALL_DTYPES)
        dts = [rng.choice(mix) for _ in range(k)]
        c["dtype"] = dts[0]
    c["dtypes"] = dts
    # operations that only move or compare values take values from the whole range of each type
    if op in STRUCTURAL and rng.random() < 0.5:
        style = "wide"
    c["style"] = style
    datas = []
    for i, s in enumerate(c["shapes"]):
        n = math.prod(s)
        dt = dts[i]
        d = gen_data(rng, n, dt, op, style)
        if op == "divide" and i == 1:
            d = [x if x else (True if dt == "bool" else 1) for x in d]
        if op == "pow" and i == 1:
            if dt.startswith(("int", "uint")):
                d = [abs(x) % 4 for x in d]
            elif dt != "bool":
                d = [float(rng.randint(-2, 3)) for _ in d] if style != "real" or rng.random() < 0.5 else d
        if op == "pow" and i == 0 and not is_intlike(dt):
            d = [x if x else 1.0 for x in d]      # 0 ** negative = inf: outside the model
        datas.append(d)
    c["datas"] = datas
    # how the caller holds the arguments: memory layout, one object in two positions, the call repeated
    if rng.random() < 0.35:
        c["layouts"] = [rng.choice(LAYOUTS) for _ in range(k)]
    if k >= 2 and form != "bin" and rng.random() < 0.15:
        i = rng.randrange(k - 1)
        j = rng.randrange(i + 1, k)
        if c["shapes"][i] == c["shapes"][j]:
            c["alias"] = [[i, j]]
            c["datas"][j] = c["datas"][i]
            c["dtypes"][j] = c["dtypes"][i]
    if rng.random() < 0.3:
        c["twice"] = True
    if backend == "numpy" and form in ("single", "stack", "concat") and c.get("axis") is not None and not c.get("axes") and rng.random() < 0.15:
        c["axis_np"] = rng.choice(INTS)          # the axis as a NumPy integer scalar
    if malformed:
        make_malformed(rng, c)
    else:
        decorate_xr(rng, c)
        if form == "take":
            force_label(rng, c)
    return c


def make_malformed(rng, c):
    """shape mismatches, out-of-range axis / index (numpy back-end only: xarray aligns/broadcasts instead)"""
    c["backend"] = "numpy"
    c["malformed"] = True
    c.pop("alias", None)
    f = c["form"]
    if f in ("multi", "stack", "concat") and len(c["shapes"]) >= 2 and len(c["shapes"][0]) >= 1 and min(c["shapes"][0]) >= 2:
        j = rng.randrange(1, len(c["shapes"]))
        s = list(c["shapes"][j])
        pos = rng.randrange(len(s))
        if f == "concat" and pos == norm_axis(c["axis"], len(s)):
            pos = (pos + 1) % len(s)
            if len(s) == 1:
                c["malformed"] = False
                return
        s[pos] = s[pos] + 1          # never broadcastable: both sizes >= 2
        c["shapes"] = c["shapes"][:j] + [s] + c["shapes"][j + 1:]
        c["datas"][j] = (c["datas"][j] * 3 + [1, 0, 1, 1, 0, 1, 1, 1])[: math.prod(s)]
    elif f == "take":
        s = c["shapes"][0]
        n = s[norm_axis(c["axis"], len(s))]
        bad = rng.choice([n, n + 1, -n - 1])
        c["idx"] = bad if scalar_idx(c) else list(c["idx"]) + [bad]
        c.pop("method", None)
    elif f == "single" and c["shapes"][0] and c["op"] in ("sum", "prod", "min", "max"):
        r = len(c["shapes"][0])
        c["axis"] = rng.choice([r, r + 1, -r - 1])
    elif f == "stack":
        r = len(c["shapes"][0])
        c["axis"] = rng.choice([r + 1, -r - 2])
    else:
        c["malformed"] = False


def gen_sweep(rng, rounds):
    """every ordered pair of element types meets in stack on plain arrays (full-range values), and in one more
    operation on a random back-end: the common type and the result type are a table, walk all of it"""
    out = []
    for _ in range(rounds):
        for a in ALL_DTYPES:
            for b in ALL_DTYPES:
                s = gen_shape(rng, max_rank=2)
                c = {"backend": "numpy", "form": "stack", "op": "stack", "dtype": a, "dtypes": [a, b], "shapes": [s, s],
                     "axis": rng.randint(-len(s) - 1, len(s)), "style": "wide"}
                c["datas"] = [gen_data(rng, math.prod(s), d, "stack", "wide") for d in (a, b)]
                out.append(c)
                backend = rng.choice(["numpy", "dataarray", "dataset"])
                form = rng.choice(["concat", "multi", "multi", "bin"])
                c = {"backend": backend, "form": form, "dtype": a, "dtypes": [a, b]}
                if form == "concat":
                    s = gen_shape(rng, min_rank=1, max_rank=2)
                    c.update(op="concat", shapes=[s, s], axis=rng.randint(-len(s), len(s) - 1), style="wide")
                elif form == "multi":
                    op = rng.choice(["min", "max", "sum", "prod", "mean", "var"])
                    s = gen_shape(rng, max_rank=2)
                    c.update(op=op, shapes=[s, s], axis=None, style="wide" if op in STRUCTURAL else "int")
                else:
                    op = rng.choice(["add", "subtract", "multiply", "divide", "pow"])
                    s = gen_shape(rng, max_rank=2)
                    second = rng.choice(["array", "zerod"])
                    c.update(op=op, shapes=[s, s if second == "array" else []], second=second, axis=None, style="int")
                ds = []
                for i, (sh, dt) in enumerate(zip(c["shapes"], c["dtypes"])):
                    d = gen_data(rng, math.prod(sh), dt, c["op"], c["style"])
                    if c["op"] == "divide" and i == 1:
                        d = [x if x else (True if dt == "bool" else 1) for x in d]
                    if c["op"] == "pow" and i == 1:
                        d = [abs(x) % 4 for x in d] if dt.startswith(("int", "uint")) else d if dt == "bool" else [float(abs(int(x)) % 3) for x in d]
                    if c["op"] == "pow" and i == 0 and not is_intlike(dt):
                        d = [x if x else 1.0 for x in d]
                    ds.append(d)
                c["datas"] = ds
                out.append(c)
        # three types of which two meet in a type the third does not need: the pairwise promotion from the left
        # (xp.asarray) and the common type of all (np.stack, xr.concat) differ for some orders
        import itertools
        for tri in (("int16", "uint16", "float32"), ("int8", "uint16", "float32"), ("int8", "uint8", "float32"),
                    ("int32", "uint32", "float64"), ("int8", "int64", "uint64")):
            for perm in itertools.permutations(tri):
                s = gen_shape(rng, max_rank=2)
                op = rng.choice(["min", "max", "sum", "mean"])
                for backend, form in (("numpy", "multi"), (rng.choice(["dataarray", "dataset"]), "multi"), ("numpy", "stack"), ("numpy", "concat")):
                    st = "wide" if form != "multi" or op in STRUCTURAL else "int"
                    sh = [max(1, x) for x in s] if form == "concat" else s
                    sh = sh or [2]
                    c = {"backend": backend, "form": form, "op": op if form == "multi" else form, "dtype": perm[0], "dtypes": list(perm),
                         "shapes": [sh] * 3 if form != "multi" else [s] * 3, "style": st,
                         "axis": None if form == "multi" else rng.randint(-len(sh), len(sh) - 1)}
                    c["datas"] = [gen_data(rng, math.prod(x), dt, c["op"], st) for x, dt in zip(c["shapes"], perm)]
                    out.append(c)
    return out


def gen_named_sweep(rng, rounds):
    """xarray arguments that store the same named dimensions in different orders, systematically: every reduction and
    every other operation x DataArray / Dataset x square and non-square shapes (a positional combination of a square
    field with its transpose has the right shape and the wrong values; of a non-square one it cannot be formed) x
    which argument is the transposed one (the first, a later one, all)"""
    out = []
    shapes = ([2, 2], [3, 3], [2, 3], [3, 1], [2, 2, 2], [2, 3, 2])
    for _ in range(rounds):
        for backend in ("dataarray", "dataset"):
            for form_op in [("multi", op) for op in REDUCTIONS] + [("stack", "stack"), ("concat", "concat"), ("bin", None), ("take", "take"), ("single", None)]:
                for s in shapes:
                    form, op = form_op
                    n = len(s)
                    k = 1 if form in ("take", "single") else 2 if form == "bin" else rng.randint(2, 4)
                    op = op or (rng.choice(list(BINARY)) if form == "bin" else rng.choice(REDUCTIONS))
                    dt = rng.choice(MODEL_DTYPES)
                    c = {"backend": backend, "form": form, "op": op, "dtype": dt, "dtypes": [dt] * k, "style": "int", "shapes": [list(s)] * k, "axis": None}
                    if form == "stack":
                        c["axis"] = rng.randint(-n - 1, n)
                    elif form in ("concat", "take", "single"):
                        c["axis"] = rng.randint(-n, n - 1)
                    if form == "concat":
                        a = norm_axis(c["axis"], n)
                        c["shapes"] = [s[:a] + [rng.choice([1, 2, 3])] + s[a + 1:] for _ in range(k)]
                    if form == "take":
                        m = s[norm_axis(c["axis"], n)]
                        kind = rng.choice(["int", "list", "ndarray"])
                        c.update(idx=rng.randint(-m, m - 1) if kind == "int" else [rng.randint(-m, m - 1) for _ in range(rng.randint(1, 3))],
                                 idx_kind=kind, idx_dtype="int64", dim_by=rng.choice(["int", "name"]) if backend == "dataarray" else "name")
                    if form == "single":
                        c["dim_by"] = rng.choice(["name", "list", "axis"] if backend == "dataarray" else ["name", "list"])
                    if form == "bin":
                        c["second"] = "array"
                    ds = []
                    for i, sh in enumerate(c["shapes"]):
                        d = gen_data(rng, math.prod(sh), dt, op, "int")
                        if op in ("divide", "pow") and i == 1:
                            d = [abs(x) % 3 + 1 for x in d] if dt.startswith("int") else [float(abs(int(x)) % 3 + 1) for x in d]
                        if op == "pow" and i == 0 and not is_intlike(dt):
                            d = [x if x else 1.0 for x in d]
                        ds.append(d)
                    c["datas"] = ds
                    which = rng.choice(["first", "later", "all"]) if k >= 2 else "first"
                    moved = {"first": [0], "later": [rng.randrange(1, k)] if k >= 2 else [0], "all": list(range(k))}[which]
                    c["perms"] = [rand_perm(rng, n, identity=0.0) if i in moved else list(range(n)) for i in range(k)]
                    if which == "all" and len(set(map(tuple, c["perms"]))) == 1 and k >= 2 and n >= 3:
                        c["perms"][-1] = rand_perm(rng, n, identity=0.0)
                    if backend == "dataset":
                        c["perms_w"] = [rand_perm(rng, n) for _ in range(k)]
                    if rng.random() < 0.3:
                        c["names"] = rng.sample(NAME_POOL, n)
                    if rng.random() < 0.3:
                        c["labels"] = {d: gen_labels(rng, sum(sh[ax] for sh in c["shapes"]) if form == "concat" and ax == norm_axis(c["axis"], n) else s[ax])
                                       for ax, d in enumerate(names_of(c)) if rng.random() < 0.7}
                    out.append(c)
    return out


def take_case(rng, backend, s, ax, **kw):
    dt = rng.choice(MODEL_DTYPES)
    c = {"backend": backend, "form": "take", "op": "take", "dtype": dt, "dtypes": [dt], "style": "int"}
    take_args(rng, c, list(s), ax, backend != "numpy", **kw)
    c["swept"] = True
    c["datas"] = [[(7 * i + 3) % 23 - 4 for i in range(math.prod(s))]] if dt.startswith("int") else [[float((7 * i + 3) % 23 - 4) for i in range(math.prod(s))]]
    return c


def gen_take_sweep(rng, rounds):
    """take, systematically: every structured family of index sequences x every back-end x list / list of NumPy integers /
    ndarray (every integer type over the rounds) x positions / labels, axis by number and by name; and the scalar forms"""
    out = []
    for _ in range(rounds):
        for backend in ("numpy", "dataarray", "dataset"):
            xr_ = backend != "numpy"
            for family in TAKE_FAMILIES:
                for kind in ("list", "ndarray", rng.choice(["nplist", "ndarray"])):
                    for method in ((None, "sel") if xr_ else (None,)):
                        s, ax = take_shape(rng)
                        a = norm_axis(ax, len(s))
                        if s[a] < 3 and family not in ("single", "empty", "repeat"):
                            s[a] = rng.choice([3, 4, 5, 6])
                        c = take_case(rng, backend, s, ax, family=family, kind=kind,
                                      method=method if method else rng.choice(["", "", "isel"]))
                        if not c.get("method"):
                            c.pop("method", None)
                        if rng.random() < 0.3:
                            c["layouts"] = [rng.choice(LAYOUTS)]
                        if rng.random() < 0.25:
                            c["twice"] = True
                        decorate_xr(rng, c, perm_p=0.25)
                        force_label(rng, c, p=0.8)
                        out.append(c)
            for kind in SCALAR_IDX:
                for method in ((None, "sel") if xr_ else (None,)):
                    s, ax = take_shape(rng)
                    c = take_case(rng, backend, s, ax, kind=kind, method=method or "")
                    if not c.get("method"):
                        c.pop("method", None)
                    decorate_xr(rng, c, perm_p=0.25)
                    force_label(rng, c, p=0.8)
                    out.append(c)
    return out


def gen_take_exhaustive(rng, nmax, lmax):
    """small scope, completely: EVERY sequence of at most lmax positions (each in [-n, n-1]) along an axis of n <= nmax
    elements, on every back-end (list or ndarray, positions or labels: drawn)"""
    import itertools
    out = []
    for n in range(1, nmax + 1):
        for L in range(0, lmax + 1):
            for idx in itertools.product(range(-n, n), repeat=L):
                for backend in ("numpy", "dataarray", "dataset"):
                    lead = rng.random() < 0.5
                    s, ax = ([n, 2], rng.choice([0, -2])) if lead else ([2, n], rng.choice([1, -1]))
                    c = {"backend": backend, "form": "take", "op": "take", "dtype": "int64", "dtypes": ["int64"], "style": "int",
                         "shapes": [s], "axis": ax, "idx": list(idx), "idx_kind": rng.choice(["list", "ndarray"]), "idx_dtype": "int64",
                         "idx_family": "exhaustive", "dim_by": rng.choice(["int", "name"]), "exhaustive": True,
                         "datas": [[10 * (i // s[1]) + i % s[1] for i in range(2 * n)]]}
                    if backend != "numpy" and rng.random() < 0.3:
                        c["method"] = "sel"
                        force_label(rng, c, p=0.7)
                    out.append(c)
        # ... and every single position, in every scalar form, by position and by label
        for pos in range(-n, n):
            for backend in ("numpy", "dataarray", "dataset"):
                for kind in SCALAR_IDX:
                    for method in ((None, "sel") if backend != "numpy" else (None,)):
                        lead = rng.random() < 0.5
                        s, ax = ([n, 2], rng.choice([0, -2])) if lead else ([2, n], rng.choice([1, -1]))
                        c = {"backend": backend, "form": "take", "op": "take", "dtype": "int64", "dtypes": ["int64"], "style": "int",
                             "shapes": [s], "axis": ax, "idx": pos, "idx_kind": kind, "idx_dtype": rng.choice(INTS if pos < 0 else IDX_DTYPES),
                             "idx_family": "exhaustive", "dim_by": rng.choice(["int", "name"]), "exhaustive": True,
                             "datas": [[10 * (i // s[1]) + i % s[1] for i in range(2 * n)]]}
                        if method:
                            c["method"] = method
                            force_label(rng, c, p=1.0)
                        out.append(c)
    return out


# ----------------------------------------------------------------------------- running
def relayout(a, how):
    """the same values held differently: Fortran order, a strided view into a larger buffer, a doubly reversed view, read-only"""
    if how == "f" and a.ndim >= 2:
        return np.asfortranarray(a)
    if how == "strided" and a.ndim >= 1:
        big = np.zeros(a.shape[:-1] + (2 * a.shape[-1] + 1,), dtype=a.dtype)
        big[..., 1::2] = a
        return big[..., 1::2]
    if how == "reversed" and a.ndim >= 1:
        return a[::-1].copy()[::-1]
    if how == "readonly":
        a = a.copy()
        a.setflags(write=False)
    return a


def arrays_of(c, var=0):
    out = []
    lay = c.get("layouts") or []
    for i, (s, d, dt) in enumerate(zip(c["shapes"], c["datas"], dtypes_of(c))):
        a = np.array(d, dtype=dt).reshape(s)
        if var == 1:
            a = (a[..., ::-1] if a.ndim else a).copy()       # second Dataset variable: same shape, other data
        out.append(relayout(a, lay[i] if i < len(lay) else "c"))
    for i, j in c.get("alias") or []:
        out[j] = out[i]
    return out


def arg_labels(c, i, d):
    """the index labels argument i carries along dimension d (concat: every argument has its own stretch of them)"""
    L = (c.get("labels") or {}).get(d)
    if L is None:
        return None
    names = names_of(c)
    ax = names.index(d)
    if c["op"] == "concat" and ax == norm_axis(c["axis"], len(names)):
        off = sum(s[ax] for s in c["shapes"][:i])
        return L[off: off + c["shapes"][i][ax]]
    return L


def hold(c, i, a, var=0):
    """canonical ndarray -> the DataArray the caller holds: named dimensions, index coordinates, then -- without changing
    what value sits at which (name, label) -- the labels in another order, the dimensions in another order, chunks"""
    import xarray as xr
    names = names_of(c)
    dims = names[len(names) - a.ndim:]           # a lower-rank argument has the trailing dimensions
    coords = {}
    for ax, d in enumerate(dims):
        L = arg_labels(c, i, d)
        if L is not None and len(L) == a.shape[ax]:
            coords[d] = L
    da = xr.DataArray(a, dims=dims, coords=coords)
    deco = c.get("deco")
    if deco:
        da.name = deco["names"][i]
        da.attrs = dict(deco["attrs"][i])
        if deco.get("scalar"):
            da = da.assign_coords(member0=deco["scalar"][i])
    lp = (c.get("lperms") or [None] * (i + 1))[i]
    if lp:
        da = da.isel({d: q for d, q in lp.items() if d in dims})
    perm = perm_of(c, i, var)
    if perm != list(range(a.ndim)):
        da = da.transpose(*[dims[q] for q in perm])
    if (c.get("chunked") or [False] * (i + 1))[i]:
        # (own graph keys: xarray's token of a chunked array does not see the memory order, a C-ordered and a Fortran-ordered
        # argument with the same bytes would become ONE dask key and one of them would be read as the other)
        da = da.chunk({d: 1 for d in da.dims[:1]}, name_prefix=f"c15-arg{i}-var{var}-")
    return da


def wrap(c, arrs):
    """numpy arrays -> back-end objects"""
    import xarray as xr
    b = c["backend"]
    if b == "numpy":
        return arrs
    das = [hold(c, i, a) for i, a in enumerate(arrs)]
    if b == "dataarray":
        objs = das
    else:
        arrs2 = arrays_of(c, var=1)
        objs = []
        for i, (d, a2) in enumerate(zip(das, arrs2)):
            ds = xr.Dataset({"u": d, "w": hold(c, i, a2, var=1)})
            if c.get("deco"):
                ds.attrs = dict(c["deco"]["attrs"][i])
            objs.append(ds)
    for i, j in c.get("alias") or []:
        objs[j] = objs[i]
    return objs


def take_by_label(c):
    if c.get("method") != "sel" or c["backend"] == "numpy":
        return False
    names, rank = names_of(c), len(c["shapes"][0])
    return names[norm_axis(c["axis"], rank)] in (c.get("labels") or {})


def take_index(c):
    """the index argument as the caller passes it.  c["idx"] holds POSITIONS; selection by label (method='sel' on a
    dimension that has an index coordinate) passes the labels at those positions"""
    idx, kind, dt = c["idx"], c["idx_kind"], c.get("idx_dtype", "int64")
    L = None
    if c.get("method") == "sel" and c["backend"] != "numpy":
        names, rank = names_of(c), len(c["shapes"][0])
        L = (c.get("labels") or {}).get(names[norm_axis(c["axis"], rank)])
    if L is not None:
        n = len(L)
        idx = L[idx % n] if kind in SCALAR_IDX else [L[p % n] for p in idx]
        if isinstance(L[0], str):
            if kind in SCALAR_IDX:
                return np.str_(idx) if kind != "int" else idx
            if kind == "ndarray":
                return np.array(idx, dtype=np.asarray(L).dtype)
            return [np.str_(x) for x in idx] if kind == "nplist" else idx
    if kind == "ndarray":
        return np.array(idx, dtype=dt)
    if kind == "npint":
        return np.dtype(dt).type(idx)
    if kind == "zerod":
        return np.array(idx, dtype=dt)
    if kind == "nplist":
        # NumPy integers, not all of one width (of one signedness: NumPy itself makes float64 of int8 next to uint64)
        fam = UINTS if dt.startswith("uint") else INTS
        return [np.dtype(fam[(fam.index(dt) + j) % 4] if j % 2 else dt).type(x) for j, x in enumerate(idx)]
    return idx


def call_impl(c, objs):
    bk = B()
    f, op, b, ax = c["form"], c["op"], c["backend"], c.get("axis")
    xr_ = b != "numpy"
    rank = len(c["shapes"][0])
    names = names_of(c)
    held0 = perm_of(c, 0)                       # the first argument's own order (positions count in it)
    if f == "multi":
        kw = {} if ax is None else {"axis": ax}
        return getattr(bk, op)(*objs, **kw)
    if c.get("axis_np") and ax is not None and not xr_:
        ax = np.dtype(c["axis_np"]).type(ax)
    if f == "single":
        if ax is None:
            return getattr(bk, op)(objs[0])
        if c.get("axes"):
            if not xr_:
                return getattr(bk, op)(objs[0], axis=tuple(c["axes"]))
            return getattr(bk, op)(objs[0], dim=[names[norm_axis(a, rank)] for a in c["axes"]])
        if not xr_:
            return getattr(bk, op)(objs[0], axis=ax)
        d, by = names[norm_axis(ax, rank)], c.get("dim_by", "name")
        if by == "axis":
            pos = held0.index(norm_axis(ax, rank))
            return getattr(bk, op)(objs[0], axis=pos - rank if ax < 0 else pos)
        return getattr(bk, op)(objs[0], dim=[d] if by == "list" else d)
    if f == "stack":
        return bk.stack(*objs, dim=c.get("newdim", "new"), axis=ax) if xr_ else bk.stack(*objs, axis=ax)
    if f == "concat":
        return bk.concat(*objs, dim=names[norm_axis(ax, rank)]) if xr_ else bk.concat(*objs, axis=ax)
    if f == "take":
        dim = ax
        if xr_ and c.get("dim_by") == "name":
            dim = names[norm_axis(ax, rank)]
        elif xr_:
            pos = held0.index(norm_axis(ax, rank))      # an integer dim counts in the array's own order of dimensions
            dim = pos - rank if ax < 0 else pos
        kw = {"method": c["method"]} if xr_ and c.get("method") else {}
        return bk.take(objs[0], take_index(c), dim=dim, **kw)
    if f == "bin":
        second = objs[1]
        if c["second"] == "scalar":
            second = np.asarray(second if b == "numpy" else second["u"].values if b == "dataset" else second.values).item()
        return getattr(bk, op)(objs[0], second)
    raise ValueError(f)


def np_ref(c, arrs):
    f, op, ax = c["form"], c["op"], c.get("axis")
    if f == "multi":
        return getattr(np, op)(np.stack(np.broadcast_arrays(*arrs) if c.get("broadcast") else arrs), axis=0)
    if f == "single":
        return getattr(np, op)(arrs[0], axis=tuple(c["axes"]) if c.get("axes") else ax)
    if f == "stack":
        return np.stack(np.broadcast_arrays(*arrs) if c.get("broadcast") else arrs, axis=ax)
    if f == "concat":
        return np.concatenate(arrs, axis=ax)
    if f == "take":
        return np.take(arrs[0], c["idx"], axis=ax)
    if f == "bin":
        second = arrs[1].item() if c["second"] == "scalar" else arrs[1]
        return getattr(np, BINARY[op])(arrs[0], second)
    raise ValueError(f)


def expected_dims(c):
    """the dimensions of the result, in the order of the NumPy reference"""
    rank = len(c["shapes"][0])
    dims = names_of(c)[:rank]
    f, ax = c["form"], c.get("axis")
    if f == "single" and c.get("axes"):
        gone = {norm_axis(a, rank) for a in c["axes"]}
        return [d for i, d in enumerate(dims) if i not in gone]
    if f == "single":
        return [] if ax is None else [d for i, d in enumerate(dims) if i != norm_axis(ax, rank)]
    if f == "stack":
        a = norm_axis(ax, rank + 1)
        return dims[:a] + [c.get("newdim", "new")] + dims[a:]
    if f == "take" and scalar_idx(c):
        return [d for i, d in enumerate(dims) if i != norm_axis(ax, rank)]
    return dims


def is_exact(c, ref):
    """data and operation on which floating point does not round: demand equality, no tolerance"""
    op = c["op"]
    if all(is_intlike(dt) for dt in dtypes_of(c)):
        return op in EXACT_OPS or (op == "pow")
    if op in STRUCTURAL:
        return True
    if op in EXACT_OPS:      # sum prod add subtract multiply on small integer-valued floats (|result| < 2^24)
        return all(float(x).is_integer() for d in c["datas"] for x in d)
    return False


def tol_of(c, res_dtype):
    eps = 2.0 ** -18 if np.dtype(res_dtype) == np.float32 else 2.0 ** -40
    m = max([abs(float(x)) for d in c["datas"] for x in d] + [1.0])
    if c["op"] == "pow":
        m = m ** 3
    return eps, eps * (m + 1) ** 2 * 4


def by_name(c):
    """the arguments do not all store their dimensions (labels) in the same order: the result is compared by name (label)"""
    return has_perms(c) or has_lperms(c)


def canonical(c, da, exp=None):
    """one result DataArray -> (values in the order of the reference, dims as returned, (values, dims) as returned with
    the labels in the canonical order).  Labels: the arguments held the same labels in different orders, the result may
    have them in any order: select them in the canonical one.  Dimensions: transposed BY NAME to the reference order."""
    exp = expected_dims(c) if exp is None else exp
    dims = [str(d) for d in da.dims]
    if has_lperms(c):
        names, labels = names_of(c), c.get("labels") or {}
        cd = names[norm_axis(c["axis"], len(names))] if c["op"] == "concat" else None
        for d in dims:
            if d in labels and d != cd and d in da.indexes:
                da = da.sel({d: labels[d]})
    raw = np.asarray(da.values)
    vals = raw
    if by_name(c) and dims != exp and sorted(dims) == sorted(exp) and len(set(dims)) == len(dims):
        vals = np.asarray(da.transpose(*exp).values)
    return vals, dims, (raw, dims)


def unpack(c, r, exp=None):
    """-> [(values, dims | None, (values as returned, dims as returned) | None) per variable]"""
    if c["backend"] == "numpy":
        return [(np.asarray(r), None, None)]
    if c["backend"] == "dataarray":
        return [canonical(c, r, exp)]
    return [canonical(c, r[v], exp) for v in ("u", "w")]


def dims_ok(c, dims):
    """every argument stored in the same order: the result has the dimensions of the reference, in that order.  Otherwise:
    the same dimensions (values were compared by name), and the new dimension of stack at the place asked for."""
    exp = expected_dims(c)
    if not by_name(c):
        return dims == exp
    if sorted(dims) != sorted(exp):
        return False
    if c["form"] == "stack":
        new = c.get("newdim", "new")
        return dims.index(new) == exp.index(new)
    return True


def observe_all(c):
    """the call, once or (case flag `twice`) twice on the SAME argument objects
    -> [('ok', [(values ndarray, dims|None)...]) | ('err', exc type name: message), ...]"""
    obs = []
    with warnings.catch_warnings():
        warnings.simplefilter("ignore")
        with np.errstate(all="ignore"):
            objs = wrap(c, arrays_of(c))
            for _ in range(2 if c.get("twice") else 1):
                try:
                    obs.append(("ok", unpack(c, call_impl(c, objs))))
                except Exception as e:
                    obs.append(("err", type(e).__name__ + ": " + str(e)[:120]))
    return obs


def observe(c):
    return observe_all(c)[0]


def reference(c, var=0):
    with warnings.catch_warnings():
        warnings.simplefilter("ignore")
        with np.errstate(all="ignore"):
            try:
                return "ok", np.asarray(np_ref(c, arrays_of(c, var)))
            except Exception as e:
                return "err", type(e).__name__


def values_agree(c, got, ref):
    """-> (ok, why, signature suffix)"""
    if got.shape != ref.shape:
        return False, f"shape {got.shape} != numpy {ref.shape}", ""
    if is_exact(c, ref):
        ok = np.array_equal(got, ref)
    else:
        rt, at = tol_of(c, ref.dtype)
        ok = np.allclose(got.astype(np.float64), ref.astype(np.float64), rtol=rt, atol=at, equal_nan=True)
    if not ok:
        return False, f"values {got.tolist()!r} ({got.dtype}) != numpy {ref.tolist()!r} ({ref.dtype})", ""
    if got.dtype != ref.dtype and got.dtype not in alt_dtypes(c):
        return False, f"element type {got.dtype} != numpy {ref.dtype} (values {got.tolist()!r})", ":dtype"
    return True, "", ""


def alt_dtypes(c):
    """NumPy has two ways to put several arrays on a new leading axis and they do not always agree on the element type:
    np.stack takes the common type of all of them (np.result_type, independent of the order), np.asarray([a, b, ...])
    promotes pairwise from the left (int16, uint16, float32 -> float64, but float32 in any other order).  Both are
    'what NumPy gives' for a multi-argument reduction."""
    if c["form"] == "bin" and c["op"] == "pow" and c.get("second") == "scalar" and dtypes_of(c)[0] == "bool":
        # NumPy disagrees with itself on a boolean array raised to the Python scalar 2: the operator (array ** 2) squares
        # (np.square: int8), the function (np.power(array, 2)) promotes (int64); with any other exponent both give int64.
        # Both are 'what NumPy gives'.
        try:
            with warnings.catch_warnings():
                warnings.simplefilter("ignore")
                with np.errstate(all="ignore"):
                    return {(np.zeros((1,), dtype=bool) ** np.array(c["datas"][1], dtype=dtypes_of(c)[1]).reshape(()).item()).dtype}
        except Exception:
            return set()
    if c["form"] != "multi":
        return set()
    try:
        with warnings.catch_warnings():
            warnings.simplefilter("ignore")
            with np.errstate(all="ignore"):
                return {getattr(np, c["op"])(np.asarray([np.ones((1,), dtype=dt) for dt in dtypes_of(c)]), axis=0).dtype}
    except Exception:
        return set()


def sig_of(c):
    return f"value:{c['backend'] if c['backend'] == 'numpy' else 'xarray'}:{c['op']}"


def oracle_values(c, res):
    """property, first sentence, on the implementation.  Returns the observation (of the first call)."""
    allobs = observe_all(c)
    kind, out = allobs[0]
    res.evaluations += len(allobs)
    rk, ref0 = reference(c)
    if c.get("malformed"):
        return kind, out          # the property does not speak about ill-formed calls; correspondence only
    if rk == "err":
        res.count("oracle:numpy-itself-raises(skipped)")
        return None, None
    for n, (kind_n, out_n) in enumerate(allobs):
        again = "" if n == 0 else "second call on the same argument objects: "
        if kind_n == "err":
            if c.get("broadcast") and c["form"] in ("stack", "multi") and n == 0:
                res.count("oracle:broadcast-stack-refused(np.stack refuses it too, skipped)")
                return None, None
            res.fail(sig_of(c) + ":raises", f"{again}{describe(c)} raised {out_n} where numpy returns a value", c)
            return kind, out
        bad = False
        for v, (got, dims, _) in enumerate(out_n):
            rk, ref = reference(c, v)
            ok, why, suffix = values_agree(c, got, ref)
            if ok and dims is not None and not dims_ok(c, dims):
                ok, why = False, f"dims {dims} != expected {expected_dims(c)}" + (" (compared by name)" if by_name(c) else "")
            if not ok:
                res.fail(sig_of(c) + suffix, f"{again}{describe(c)}: {why}", c)
                bad = True
                break
        if bad:
            break
    res.count("compare:" + ("exact" if is_exact(c, ref0) else "tolerance"))
    return kind, out


def describe(c):
    extra = {k: c[k] for k in ("axis", "axes", "axis_np", "idx", "idx_kind", "idx_dtype", "method", "second", "alias", "layouts", "dim_by", "names", "newdim", "perms", "perms_w", "labels", "lperms", "deco", "chunked", "broadcast") if k in c and c[k] is not None}
    dts = dtypes_of(c)
    dt = dts[0] if len(set(dts)) == 1 else "types " + ",".join(dts)
    return f"backends.{c['op']} [{c['backend']}, {c['form']}, {dt}, shapes {c['shapes']}, {extra}]"


# ----------------------------------------------------------------------------- Coq literals
def frac(x):
    if isinstance(x, (bool, np.bool_)):
        return Fraction(int(x))
    if isinstance(x, (int, np.integer)):
        return Fraction(int(x))
    return Fraction(float(x))


def clistnat(s):
    return "[" + ";".join(str(int(x)) for x in s) + "]%nat"


def ctensor(shape, flat):
    fr = [frac(x) for x in flat]
    if all(f.denominator == 1 for f in fr):
        return f"(ti {clistnat(shape)} [" + ";".join(str(f.numerator) for f in fr) + "]%Z)"
    return f"(tq {clistnat(shape)} [" + ";".join(f"({f.numerator},{f.denominator})" for f in fr) + "]%Z)"


def cz(n):
    return f"({int(n)})%Z"


def ccall(c, var=0):
    arrs = arrays_of(c, var)
    ts = [ctensor(a.shape, a.reshape(-1).tolist()) for a in arrs]
    f, op, ax = c["form"], c["op"], c.get("axis")
    if f in ("multi", "single"):
        a = "None" if ax is None else f"(Some {cz(ax)})"
        return f"CReduce {cstr(op)} {clist(ts)} {a}"
    if f == "stack":
        return f"CStack {clist(ts)} {cz(ax)}"
    if f == "concat":
        return f"CConcat {clist(ts)} {cz(ax)}"
    if f == "take":
        idx = c["idx"]
        i = f"(inl {cz(idx)})" if scalar_idx(c) else "(inr [" + ";".join(str(int(x)) for x in idx) + "]%Z)"
        return f"CTake {ts[0]} {i} {cz(ax)}"
    return f"CBin {cstr(BINARY[op])} {ts[0]} {ts[1]}"


def cobs(kind, got):
    if kind == "err":
        return f"OErr {cstr(got.split(':')[0])}"
    flat = [frac(x) for x in got.reshape(-1).tolist()]
    if all(f.denominator == 1 for f in flat):
        return f"OInt {clistnat(got.shape)} [" + ";".join(str(f.numerator) for f in flat) + "]%Z"
    return f"OVal {clistnat(got.shape)} [" + ";".join(f"({f.numerator},{f.denominator})" for f in flat) + "]%Z"


def conversion_exact(c):
    """converting every argument to NumPy's common element type changes no value (64-bit integers -> float64 may)"""
    dts = dtypes_of(c)
    if len(set(dts)) == 1:
        return True
    D = common_np_dtype(c)
    for var in ((0, 1) if c["backend"] == "dataset" else (0,)):
        for a in arrays_of(c, var):
            if a.dtype != D and a.size:
                with np.errstate(all="ignore"):
                    b = a.astype(D)
                if any(frac(x) != frac(y) for x, y in zip(a.reshape(-1).tolist(), b.reshape(-1).tolist())):
                    return False
    return True


def in_model(c, kind, out, named=False):
    """the model's domain: the modelled element types; arithmetic only where nothing wraps or rounds away (small values
    of the signed and floating types), finite results, integral exponents; no broadcasting by position (the named model
    broadcasts by dimension name: named=True)"""
    dts = dtypes_of(c)
    if any(dt not in COQ_DTYPE for dt in dts) or (c.get("broadcast") and not named) or c.get("axes"):
        return False          # (a reduction over several axes at once is compared with NumPy by the oracle only)
    moving = c["op"] in STRUCTURAL
    if not moving and any(dt in EXTRA_DTYPES for dt in dts):
        return False
    if not conversion_exact(c):
        return False
    if kind == "ok":
        for got, *_ in out:
            if got.dtype.kind not in ("iufb" if moving else "iuf") or not np.all(np.isfinite(got.astype(np.float64))):
                return False
    if c["op"] == "pow" and any(not float(x).is_integer() for x in c["datas"][1]):
        return False
    if c["op"] in ("mean", "std", "var") and math.prod(c["shapes"][0]) == 0:
        return False
    return True


def asarray_rule(c):
    """ArrayAPIBackend puts the arguments of a multi-argument reduction on a new axis with xp.asarray([a, b, ...]), whose
    element type is found pairwise from the left (Backends/Dtype.v promote_seq), not np.result_type (promote_list)"""
    return c["backend"] == "numpy" and c["form"] == "multi"


def cseq(c):
    return "true" if asarray_rule(c) else "false"


def common_np_dtype(c):
    dts = [np.dtype(d) for d in dtypes_of(c)]
    if asarray_rule(c):
        D = dts[0]
        for d in dts[1:]:
            D = np.promote_types(D, d)
        return D
    return np.result_type(*dts)


def typed_case(c):
    """a Python scalar operand has no element type (NumPy's weak-scalar rules are not modelled)"""
    return not (c["form"] == "bin" and c.get("second") == "scalar")


def ccall_shape(c):
    """the call without its data: enough for the element type of the result"""
    f, op = c["form"], c["op"]
    t0 = "(ti []%nat [0]%Z)"
    if f in ("multi", "single"):
        return f"CReduce {cstr(op)} [] None"
    if f == "stack":
        return "CStack [] 0%Z"
    if f == "concat":
        return "CConcat [] 0%Z"
    if f == "take":
        return f"CTake {t0} (inl 0%Z) 0%Z"
    return f"CBin {cstr(BINARY[op])} {t0} {t0}"


def cterm(c, kind, got, var=0):
    if kind == "ok":
        exact = is_exact(c, got)
        rt, at = (0.0, 0.0) if exact else tol_of(c, got.dtype)
        if c["op"] == "std":
            rt, at = rt * 8, at * 8
    else:
        rt = at = 0.0
    frt, fat = Fraction(rt), Fraction(at)
    # element types: of every argument, and of the observed result; a Python scalar operand has none (untyped case)
    typed = typed_case(c)
    ds = "[" + "; ".join(COQ_DTYPE[dt] for dt in dtypes_of(c)) + "]" if typed else "(@nil dtype)"
    od = f"(Some {COQ_DTYPE[str(got.dtype)]})" if typed and kind == "ok" and str(got.dtype) in COQ_DTYPE else "(@None dtype)"
    return f"(({ccall(c, var)}, {cobs(kind, got)}, ({frt.numerator},{frt.denominator})%Z, ({fat.numerator},{fat.denominator})%Z), ({ds}, {od}, {cseq(c)}))"


def cnames(l):
    return "[" + "; ".join(cstr(str(x)) for x in l) + "]"


def cheld(c, var=0):
    """the arguments as the caller holds them, for the named model: each with its own dimension names in its own storage
    order (index labels are not modelled: the canonical label order is emitted)"""
    names = names_of(c)
    out = []
    for i, a in enumerate(arrays_of(c, var)):
        dims = names[len(names) - a.ndim:]
        perm = perm_of(c, i, var)
        h = a.transpose(perm) if a.ndim else a
        out.append(f"(xa {cnames([dims[q] for q in perm])} {ctensor(h.shape, h.reshape(-1).tolist())})")
    return out


def cxcall(c, var=0):
    ts = cheld(c, var)
    f, op, ax = c["form"], c["op"], c.get("axis")
    names, rank = names_of(c), len(c["shapes"][0])
    if f == "multi":
        return f"XReduce {cstr(op)} {clist(ts)} None"
    if f == "single":
        d = "None" if ax is None else f"(Some {cstr(names[norm_axis(ax, rank)])})"
        return f"XReduce {cstr(op)} {clist(ts)} {d}"
    if f == "stack":
        return f"XStack {clist(ts)} {cstr(c.get('newdim', 'new'))} {cz(ax)}"
    if f == "concat":
        return f"XConcat {clist(ts)} {cstr(names[norm_axis(ax, rank)])}"
    if f == "take":
        idx = c["idx"]
        i = f"(inl {cz(idx)})" if scalar_idx(c) else "(inr [" + ";".join(str(int(x)) for x in idx) + "]%Z)"
        if c.get("dim_by") == "name" or c["backend"] == "dataset":      # a Dataset counts positions in ITS order of dimensions
            d = f"(inl {cstr(names[norm_axis(ax, rank)])})"
        else:
            pos = perm_of(c, 0).index(norm_axis(ax, rank))
            d = f"(inr {cz(pos - rank if ax < 0 else pos)})"
        return f"XTake {ts[0]} {i} {d}"
    return f"XBin {cstr(BINARY[op])} {ts[0]} {ts[1]}"


def cxterm(c, raw, var=0):
    """(call on the held arguments, observed dims, strict order?, observed values in the order returned, tolerances)"""
    got, dims = raw
    exact = is_exact(c, got)
    rt, at = (0.0, 0.0) if exact else tol_of(c, got.dtype)
    if c["op"] == "std":
        rt, at = rt * 8, at * 8
    frt, fat = Fraction(rt), Fraction(at)
    strict = "true" if c["backend"] == "dataarray" else "false"
    return f"({cxcall(c, var)}, {cnames(dims)}, {strict}, {cobs('ok', got)}, ({frt.numerator},{frt.denominator})%Z, ({fat.numerator},{fat.denominator})%Z)"


# ----------------------------------------------------------------------------- batch law on the implementation
def runtime_marked():
    bk = B()
    out = []
    for n in dir(bk.Backend):
        if n.startswith("_"):
            continue
        f = getattr(bk.Backend, n)
        if callable(f) and getattr(f, "batchable", False):
            out.append(n)
    return sorted(out)


def gen_partition(rng, k, ordered):
    """k argument positions -> list of batches (each non-empty, at least two batches)"""
    idx = list(range(k))
    if not ordered and rng.random() < 0.5:
        rng.shuffle(idx)
    nb = rng.randint(2, k)
    cuts = sorted(rng.sample(range(1, k), nb - 1))
    return [idx[i:j] for i, j in zip([0] + cuts, cuts + [k])]


def gen_batch_case(rng, name):
    backend = rng.choice(["numpy", "dataarray", "dataset"])
    dtype = rng.choice(["int64", "int64", "int32", "float64"])
    k = rng.randint(2, 6)
    c = {"backend": backend, "form": "batch", "op": name, "dtype": dtype}
    if name == "concat":
        s = gen_shape(rng, min_rank=1)
        ax = rng.randint(-len(s), len(s) - 1)
        a = norm_axis(ax, len(s))
        shapes = []
        for _ in range(k):
            t = list(s)
            t[a] = rng.choice([1, 2, 3])
            shapes.append(t)
        c["shapes"], c["axis"] = shapes, ax
    else:
        s = gen_shape(rng)
        c["shapes"], c["axis"] = [s] * k, None
    style = rng.choice(["int", "int", "real"])
    # element types: one for all, or per argument; values: small, or -- where the batched and the unbatched evaluation
    # compute in the same type whatever the grouping -- from the whole range of each type
    dts = [dtype] * k
    r = rng.random()
    if r < 0.25:
        dts = [rng.choice(INTS) for _ in range(k)]
        style = "wide" if name in ("min", "max", "concat") or all(d in ("int8", "int16") for d in dts) or rng.random() < 0.5 else "int"
    elif r < 0.5:
        pool = ALL_DTYPES if name in ("min", "max", "concat") else INTS + ["uint8", "uint16", "float32", "float64"]
        dts = [rng.choice(pool) for _ in range(k)]
        if name in ("min", "max", "concat") and rng.random() < 0.6:
            style = "wide"
    c["dtypes"], c["dtype"], c["style"] = dts, dts[0], style
    c["datas"] = [gen_data(rng, math.prod(s), dt, "prod" if name == "prod" else name, style) for s, dt in zip(c["shapes"], dts)]
    c["partition"] = gen_partition(rng, k, ordered=(name in ("concat", "stack")))
    if rng.random() < 0.25:
        c["layouts"] = [rng.choice(LAYOUTS) for _ in range(k)]
    decorate_xr(rng, c, perm_p=0.5)
    return c


def batch_call(c, objs):
    bk = B()
    name, ax = c["op"], c.get("axis")
    f = getattr(bk, name)
    kw = {}
    if name in ("concat", "stack"):
        rank = len(c["shapes"][0])
        if c["backend"] == "numpy":
            kw = {"axis": ax if ax is not None else 0}
        else:
            kw = {"dim": names_of(c)[norm_axis(ax, rank)]} if name == "concat" else {"dim": c.get("newdim", "new")}
    return f(*objs, **kw)


def plain(c, r):
    """the values of a result; arguments held in different dimension / label orders: brought to the canonical order by name"""
    return [vals for vals, _, _ in unpack(c, r, exp=names_of(c)[:len(c["shapes"][0])])]


def oracle_batch(c, res):
    """second sentence on the implementation: batched == unbatched for this partition"""
    with warnings.catch_warnings():
        warnings.simplefilter("ignore")
        with np.errstate(all="ignore"):
            objs = wrap(c, arrays_of(c))
            res.evaluations += 1
            try:
                whole = plain(c, batch_call(c, objs))
            except Exception as e:
                res.count("batch:unbatched-call-raises(skipped)")
                return
            try:
                inner = [objs[b[0]] if len(b) == 1 else batch_call(c, [objs[i] for i in b]) for b in c["partition"]]
                got = plain(c, batch_call(c, inner))
            except Exception as e:
                res.fail(f"batch-law:{c['op']}", f"{describe(c)} partition {c['partition']}: batched evaluation raised {type(e).__name__}: {str(e)[:100]}", c)
                return
    dts = dtypes_of(c)
    exact = all(is_intlike(dt) for dt in dts) or c["style"] in ("int", "wide")
    rt = 1e-5 if any(dt in ("float32", "float16") for dt in dts) else 1e-9
    for g, w in zip(got, whole):
        if exact and c["op"] in EXACT_OPS:
            ok = g.shape == w.shape and np.array_equal(g, w)
        else:
            m = max([abs(float(x)) for d in c["datas"] for x in d] + [1.0])
            ok = g.shape == w.shape and np.allclose(g.astype(float), w.astype(float), rtol=rt, atol=rt * (m + 1) ** 2)
        if not ok:
            res.fail(f"batch-law:{c['op']}", f"{describe(c)} partition {c['partition']}: batched {g.tolist()!r} != unbatched {w.tolist()!r}", c)
            return
    res.count("batch:" + c["op"])


# ----------------------------------------------------------------------------- translator tie
def translator_markers(ctx=None):
    """the facade methods the table Coq was built against says are marked: read from the source by the translator, or --
    when the translator could not read the current source and the driver installed the pinned table -- from that table"""
    if ctx is not None and "batchable.py" in getattr(ctx, "fallbacks", {}):
        import re
        txt = (ROOT / "coq" / "gen" / "Batchable.v").read_text()
        fac = txt[txt.index("Definition backend_facade"):txt.index("Definition arrayapi_table")]
        return sorted(m.group(1) for m in re.finditer(r'\("([^"]*)", "[^"]*", (true|false), \d+\)', fac) if m.group(2) == "true")
    spec = importlib.util.spec_from_file_location("batchable_translator", ROOT / "translate" / "batchable.py")
    m = importlib.util.module_from_spec(spec)
    spec.loader.exec_module(m)
    import ast
    tree = ast.parse((REPO / "src/earthkit/workflows/backends/__init__.py").read_text())
    return sorted(n for n, _, marked, _ in m.facade(tree) if marked)


# ----------------------------------------------------------------------------- driver
def key_of(c):
    return (c["backend"], c["op"], c["form"], tuple(map(tuple, c["shapes"])), str(c.get("axis")), str(c.get("idx")), tuple(dtypes_of(c)), str(c.get("partition")),
            str(c.get("perms")), str(c.get("perms_w")), str(c.get("method")), str(c.get("axes")))


def nontrivial(c):
    return len(c["shapes"][0]) >= 1 and math.prod(c["shapes"][0]) >= 2


def run_cases(ctx, res, cases, acc):
    """oracle on every case; the cases inside the model's domain are queued (acc) for the evaluation in Coq"""
    for c in cases:
        kind, out = oracle_values(c, res)
        res.count(f"{c['backend']}:{c['form']}:{c['op']}" + (":malformed" if c.get("malformed") else ""))
        dts = dtypes_of(c)
        if len(dts) >= 2:
            res.count("element types:" + ("equal" if len(set(dts)) == 1 else "mixed, first is the common type" if str(np.result_type(*dts)) == dts[0] else "mixed, first is narrower than the common type"))
        if c.get("style") == "wide":
            res.count("values:whole range of the type")
        for flag in ("broadcast", "alias", "twice", "layouts"):
            if c.get(flag):
                res.count("held:" + flag)
        if c.get("axes"):
            res.count("axis:several at once")
        if c.get("axis_np"):
            res.count("axis:NumPy integer scalar")
        if c["form"] == "take":
            res.count("take:indices:" + c.get("idx_family", "random") + ":" + c["idx_kind"])
            res.count("take:index type:" + c.get("idx_dtype", "int64"))
            if c["backend"] != "numpy":
                res.count("take:xarray:" + (c.get("method") or "isel (default)") + (" by label" if take_by_label(c) else ""))
        if nontrivial(c):
            res.nontrivial_keys.add(key_of(c))
        if c["backend"] != "numpy":
            for flag in ("names", "perms", "labels", "lperms", "deco", "chunked"):
                if c.get(flag):
                    res.count("held:xarray:" + flag)
            if has_perms(c) and c["form"] in MULTI_FORMS:
                res.count("held:xarray:arguments store their dimensions in different orders")
        if kind is None:
            continue
        if c.get("exhaustive") or c.get("swept"):
            # the small scope and the families are walked completely by the oracle; every eighth case of the small scope and
            # every second of the sweep is also evaluated in Coq (the model's take is one code path for all of them)
            tag = "exh" if c.get("exhaustive") else "swp"
            acc[tag] = acc.get(tag, 0) + 1
            if acc[tag] % (8 if tag == "exh" else 2):
                continue
        if c["backend"] != "numpy" and kind == "ok" and in_model(c, kind, out, named=True):
            acc["xseen"] = acc.get("xseen", 0) + 1
        if (c["backend"] != "numpy" and kind == "ok" and in_model(c, kind, out, named=True)
                and (has_perms(c) or c.get("names") or c.get("broadcast") or c.get("dim_by") in ("axis", "int") or acc["xseen"] % 3 == 0)):
            # the named model: the arguments as held, names resolved inside Coq (every case in which the names matter,
            # a third of the others)
            for v, (_, _, raw) in enumerate(out):
                acc["xterms"].append(cxterm(c, raw, v))
                acc["xmetas"].append(c)
        if not in_model(c, kind, out if kind == "ok" else []):
            res.count("correspondence:outside-model-domain(oracle only)")
            # the element type of the result is predicted by the model even where the values are not (wrap-around, rounding, broadcasting)
            if kind == "ok" and typed_case(c) and all(dt in COQ_DTYPE for dt in dts) and str(out[0][0].dtype) in COQ_DTYPE:
                acc["dterms"].append(f"({ccall_shape(c)}, [{'; '.join(COQ_DTYPE[dt] for dt in dts)}], {COQ_DTYPE[str(out[0][0].dtype)]}, {cseq(c)})")
                acc["dmetas"].append(c)
                res.count("correspondence:element type of the result only")
            continue
        if kind == "err":
            acc["terms"].append(cterm(c, "err", out))
            acc["metas"].append(c)
        else:
            for v, (got, *_) in enumerate(out):
                acc["terms"].append(cterm(c, "ok", got, v))
                acc["metas"].append(c)
        if len(res.samples) < 4 and nontrivial(c) and c["form"] in ("multi", "concat", "take"):
            res.samples.append({"case": {k: c[k] for k in c if k != "datas"}, "observed": out if kind == "err" else out[0][0].tolist()})


def check_in_coq(res, acc):
    """the queued cases, evaluated by the model inside Coq (two checkers, side by side)"""
    from concurrent.futures import ThreadPoolExecutor
    jobs = []
    if acc["terms"]:
        jobs.append(("check_case_d", acc["terms"], acc["metas"], 400, "val",
                     "Coq model (Backends/Ops.v apply, Backends/Dtype.v element types) disagrees with backends.{op} on {d}"))
    if acc.get("xterms"):
        jobs.append(("check_xcase", acc["xterms"], acc["xmetas"], 300, "xr",
                     "Coq model (Backends/Named.v xr_apply: arguments matched by dimension name) disagrees with backends.{op} on {d}"))
    if acc["dterms"]:
        jobs.append(("check_dtype_only", acc["dterms"], acc["dmetas"], 2000, "dt",
                     "Coq model (Backends/Dtype.v result_dtype) disagrees with backends.{op} on the element type of the result of {d}"))
    with ThreadPoolExecutor(max_workers=3) as ex:
        outs = list(ex.map(lambda j: coq_results("C15", HEADER, j[1], j[0], shard=j[3], tag=j[4]), jobs))
    for (checker, terms, metas, _, _, msg), (rs, logs) in zip(jobs, outs):
        res.corr_checked += len(rs)
        for r, c in zip(rs, metas):
            if r is not True:
                res.disagree(msg.format(op=c["op"], d=describe(c))
                             + ("" if r is False else " (cases file did not compile: " + (logs[0][-300:] if logs else "") + ")"), c)
                break


def run(ctx, res):
    res.rule = ("a case = one call of one back-end (numpy | xr.DataArray | xr.Dataset) of one operation in one form (multi-argument, single-argument with/without axis, "
                "stack, concat, take int/NumPy integer/0-d/list/list of NumPy integers/ndarray x index structure x isel/sel, binary with array/0-d/scalar/broadcast operand) with the element type of every argument, shapes, axis, indices, "
                "or one batched evaluation with a partition; "
                "non-trivial = rank >= 1 and >= 2 elements; distinct = distinct (backend, op, form, shapes, axis, indices, element types, partition)")
    # (T) translator table == run-time markers
    try:
        tm, rm = translator_markers(ctx), runtime_marked()
        if tm != rm:
            res.disagree(f"marker table read by translate/batchable.py {tm} differs from run-time batchable attributes {rm}", {"translator": tm, "runtime": rm})
        res.extra["batchable_marked_runtime"] = rm
    except Exception as e:
        res.disagree("translator tie raised " + repr(e), {})
    # the table Coq was built against must be the one of THIS repository (gen/ is shared between concurrent runs)
    try:
        import subprocess, tempfile
        with tempfile.TemporaryDirectory() as td:
            subprocess.run([PY, str(ROOT / "translate" / "batchable.py"), str(REPO), td], capture_output=True, timeout=60)
            fresh = (Path(td) / "Batchable.v").read_text()
        if fresh != (ROOT / "coq" / "gen" / "Batchable.v").read_text():
            ctx.notes.append("coq/gen/Batchable.v differs from a fresh translation of this repository: another ./check or ./coqmake with a different VERIF_REPO ran concurrently; re-run")
    except Exception as e:
        res.disagree("could not re-run translate/batchable.py: " + repr(e), {})
    # corpus first: stored failing inputs
    for p, obj in load_corpus("C15"):
        c = obj.get("case")
        if obj.get("kind") == "failing-input" and isinstance(c, dict) and "form" in c:
            if c["form"] == "batch" and c["op"] not in runtime_marked():
                continue          # the law is only claimed for functions that carry the marker now
            res.count("corpus")
            (oracle_batch if c["form"] == "batch" else oracle_values)(c, res)
    # (O1)+(R) values
    rng = ctx.sub_rng("values")
    cases = [gen_case(rng) for _ in range(ctx.n(1400, 30000))]
    rng2 = ctx.sub_rng("malformed")
    bad = [gen_case(rng2, malformed=True) for _ in range(ctx.n(150, 3000))]
    bad = [c for c in bad if c.get("malformed")]
    sweep = gen_sweep(ctx.sub_rng("sweep"), ctx.n(1, 8)) + gen_named_sweep(ctx.sub_rng("named"), ctx.n(1, 10))
    sweep += gen_take_sweep(ctx.sub_rng("take"), ctx.n(2, 30))
    sweep += gen_take_exhaustive(ctx.sub_rng("take-small"), ctx.n(3, 4), ctx.n(3, 4))
    acc = {"terms": [], "metas": [], "dterms": [], "dmetas": [], "xterms": [], "xmetas": []}
    import time
    t0 = time.time()
    run_cases(ctx, res, cases, acc)
    run_cases(ctx, res, sweep, acc)
    run_cases(ctx, res, bad, acc)
    t1 = time.time()
    check_in_coq(res, acc)
    res.extra["phase_s"] = {"oracle on the value cases": round(t1 - t0, 1), "evaluation in Coq": round(time.time() - t1, 1),
                            "cases in Coq": {k: len(acc[k]) for k in ("terms", "xterms", "dterms")}}
    # (O2) batch law for every function marked at run time
    rng3 = ctx.sub_rng("batch")
    for name in runtime_marked():
        for _ in range(ctx.n(150, 4000)):
            c = gen_batch_case(rng3, name)
            oracle_batch(c, res)
            res.nontrivial_keys.add(key_of(c))


def search(ctx, res):
    """enlarged search after a broken proof / translator / correspondence: more seeds, oracle only"""
    from common import Result
    r2 = Result()
    for extra in range(1, 4):
        rng = __import__("random").Random(f"C15:search:{ctx.seed}:{extra}")
        for name in runtime_marked():
            for _ in range(1500):
                oracle_batch(gen_batch_case(rng, name), r2)
                if r2.failures:
                    return r2.failures[0]
        for c in gen_sweep(rng, 1) + gen_named_sweep(rng, 2) + gen_take_sweep(rng, 4):
            oracle_values(c, r2)
            if r2.failures:
                return r2.failures[0]
        for _ in range(6000):
            oracle_values(gen_case(rng), r2)
            if r2.failures:
                return r2.failures[0]
    return None


def replay(ctx, case):
    from common import Result
    c = case.get("case", case)
    r = Result()
    if not isinstance(c, dict) or "form" not in c:
        return {"fails": None, "note": "not an input case (proof / correspondence record): re-run ./check C15"}
    if c["form"] == "batch":
        if c["op"] not in runtime_marked():
            return {"fails": False, "what": f"backends.{c['op']} does not carry the batchable marker in this checkout: the law is not claimed for it"}
        oracle_batch(c, r)
    else:
        oracle_values(c, r)
    return {"fails": bool(r.failures), "what": r.failures[0]["what"] if r.failures else "property holds on this input"}
