#!/usr/bin/env python3
"""Regenerates the generated blocks of DESIGN.md (between <!-- BEGIN:x --> and <!-- END:x -->) from the files
they summarise: known_findings.json, seeded/*/meta.json, benign/*/meta.json."""
import json
import re
from pathlib import Path

ROOT = Path("/verif")


def findings():
    k = json.loads((ROOT / "known_findings.json").read_text())
    out = ["Repaired (`fix:` commits in `/repo`, one per defect, baseline suite still 133 passed):", ""]
    out += [f"* {l}" for l in k["fixed"]]
    out += ["", "Recorded as open findings (`known_findings.json` → `open`; the checks print `KNOWN-FINDING:` lines and exit 0 for exactly these signatures):", ""]
    out += [f"* **{o['property']} `{o['signature']}`** – {o['what']}" for o in k["open"]]
    return "\n".join(out)


def esc(s):
    return str(s).replace("|", "\\|").replace("\n", " ")


def seeded():
    rows = ["| id | what was changed | needs to manifest | caught | failure signature |", "|---|---|---|---|---|"]
    n = c = other = 0
    for d in sorted((ROOT / "seeded").iterdir()):
        m = json.loads((d / "meta.json").read_text())
        by = [p for p in m.get("caught_by", []) if p != m["property"]]
        r = m.get("check_results", {}).get(m["property"] if not by or m["property"] in m.get("caught_by", []) else by[0], {})
        how = r.get("signature") or ""
        if r.get("violation") and "no-failing-input-found" in r["violation"]:
            how = "no-failing-input-found [correspondence only]"
        n += 1
        c += bool(m.get("caught"))
        other += bool(m.get("caught")) and m["property"] not in m.get("caught_by", [m["property"]])
        rows.append(f"| {m['id']} | {esc(m.get('summary', ''))[:170]} | {esc(m.get('needs_to_manifest', ''))[:130]} | {('yes' + (' (by the check of ' + ', '.join(by) + ')' if by and m['property'] not in m.get('caught_by', []) else '')) if m.get('caught') else ('NO' if 'caught' in m else 'not run')} | {esc(how)} |")
    return f"{n} changes, {c} caught ({c - other} by the quick check of their own property, {other} by the check of the property whose mechanism they change).\n\n" + "\n".join(rows)


def benign():
    p = ROOT / "benign"
    if not p.exists():
        return "(none yet)"
    rows = ["| id | rewrite | suite with it | check |", "|---|---|---|---|"]
    n = q = 0
    for d in sorted(p.iterdir()):
        m = json.loads((d / "meta.json").read_text())
        cr = m["check_result"]
        n += 1
        q += bool(m["quiet"])
        verdict = "quiet" if m["quiet"] else "ALARM: " + esc(cr.get("signature")) + (" (no-failing-input-found)" if cr.get("violation") and "no-failing-input-found" in cr["violation"] else "")
        if m.get("after_fix"):
            verdict += " → " + esc(m["after_fix"])
        if m.get("stale"):
            verdict += " (" + esc(m["stale"]) + ")"
        rows.append(f"| {m['id']} | {esc(m.get('summary', ''))[:200]} | {esc(m['tests_with_change'])[:22]} | {verdict} |")
    return f"{n} rewrites, {q} left the property's quick check quiet at first run.\n\n" + "\n".join(rows)


def main():
    f = ROOT / "DESIGN.md"
    s = f.read_text()
    for name, fn in (("findings", findings), ("seeded", seeded), ("benign", benign)):
        pat = re.compile(rf"(<!-- BEGIN:{name} -->\n).*?(<!-- END:{name} -->)", re.S)
        if not pat.search(s):
            print("marker missing:", name)
            continue
        s = pat.sub(lambda m: m.group(1) + fn() + "\n" + m.group(2), s)
    f.write_text(s)


if __name__ == "__main__":
    main()
