#!/usr/bin/env python3
"""Behaviour-preserving rewrites (produced by independent sub-agents given only a property's text and a scratch
worktree) are the other half of the evaluation: a check must stay quiet on them.

  tools/eval_benign.py /tmp/benignout C06 C08 ...   # per property, in its scratch worktree /tmp/seed-<pid> (fast-forwarded
                                                    # to /repo's main): apply, run the 133 tests, run ./check <pid> with
                                                    # VERIF_REPO=<worktree>, revert; keep as /verif/benign/<pid>-<x>/
  tools/eval_benign.py table
"""
import json
import os
import shutil
import subprocess
import sys
from pathlib import Path

ROOT = Path("/verif")
KEEP = ROOT / "benign"
PY = "/venv/bin/python"


def sh(cmd, cwd=None, env=None, timeout=1800):
    try:
        p = subprocess.run(cmd, cwd=cwd, env=env, capture_output=True, text=True, timeout=timeout)
        return p.returncode, p.stdout + p.stderr
    except subprocess.TimeoutExpired:
        return 124, "TIMEOUT"


def evaluate(srcroot, pid):
    wt = Path(f"/tmp/seed-{pid}")
    sh(["git", "checkout", "--", "."], cwd=wt)
    rc, o = sh(["git", "merge", "--ff-only", "main"], cwd=wt)
    if rc != 0:
        print(pid, "cannot fast-forward worktree:", o[-200:])
        return
    for sd in sorted(p for p in (Path(srcroot) / pid).iterdir() if p.is_dir() and (p / "patch.diff").exists()):
        bid = f"{pid}-{sd.name}"
        rc, o = sh(["git", "apply", "--check", str(sd / "patch.diff")], cwd=wt)
        if rc != 0:
            print(bid, "patch does not apply:", o[-200:])
            continue
        sh(["git", "apply", str(sd / "patch.diff")], cwd=wt)
        try:
            env = dict(os.environ, PYTHONPATH=f"{wt}/src", PYTHONHASHSEED="0", PYTHONDONTWRITEBYTECODE="1")
            rct, ot = sh([PY, "-m", "pytest", "-q", "-p", "no:cacheprovider", "--continue-on-collection-errors", "tests/earthkit_workflows"], cwd=wt, env=env, timeout=600)
            tests = ([l for l in ot.strip().split("\n") if "passed" in l or "failed" in l][-1:] or [ot[-200:]])[0].strip("= ")
            rc, o = sh(["./check", pid], cwd=ROOT, env=dict(os.environ, VERIF_REPO=str(wt)))
            lines = [l for l in o.split("\n") if l.startswith("VIOLATION") or l.startswith(f"[{pid}]")]
            viol = [l for l in lines if l.startswith("VIOLATION")]
            info = {"exit": rc, "violation": viol[0] if viol else None, "summary": lines[-1] if lines else o[-300:]}
            if viol:
                try:
                    r = json.loads(Path(viol[0].split("replay=")[1].split()[0]).read_text())
                    info["signature"] = r.get("signature") or r.get("kind")
                    info["what"] = (r.get("what") or r.get("broken") or "")[:600]
                except Exception:
                    pass
        finally:
            sh(["git", "checkout", "--", "."], cwd=wt)
        meta = {}
        try:
            meta = json.loads((sd / "meta.json").read_text())
        except Exception:
            pass
        meta.update({"id": bid, "property": pid, "author": "independent sub-agent asked for behaviour-preserving rewrites of the code behind the property",
                     "tests_with_change": tests, "check_result": info, "quiet": rc == 0 and not viol})
        dst = KEEP / bid
        dst.mkdir(parents=True, exist_ok=True)
        if (dst / "meta.json").exists():   # keep the history: an alarm at the first run stays recorded
            prev = json.loads((dst / "meta.json").read_text())
            first = prev.get("first_check_result") or (prev["check_result"] if not prev.get("quiet") else None)
            if first:
                meta["first_check_result"] = first
                meta["quiet"] = False
                meta["after_fix"] = "quiet after the machinery was corrected" if (rc == 0 and not viol) else "still alarms"
        shutil.copy(sd / "patch.diff", dst / "patch.diff")
        (dst / "meta.json").write_text(json.dumps(meta, indent=1))
        print(bid, "quiet" if meta["quiet"] else "ALARM", tests, json.dumps(info)[:500], flush=True)


def table():
    print("| id | rewrite | tests | check |\n|---|---|---|---|")
    for d in sorted(KEEP.iterdir()):
        m = json.loads((d / "meta.json").read_text())
        c = m["check_result"]
        print(f"| {m['id']} | {m.get('summary','')[:150]} | {m['tests_with_change'][:40]} | {'quiet' if m['quiet'] else 'ALARM: ' + str(c.get('signature'))} |")


if __name__ == "__main__":
    if sys.argv[1] == "table":
        table()
    else:
        for pid in sys.argv[2:]:
            evaluate(sys.argv[1], pid)
