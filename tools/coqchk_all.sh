#!/bin/bash
# Re-checks every compiled property file (and all it depends on) with Coq's independent checker
# and prints the axioms each relies on.   tools/coqchk_all.sh [C08 C09 ...]   -> build/coqchk.log
cd /verif/coq || exit 2
ids=${*:-C01 C02 C03 C04 C05 C06 C07 C08 C09 C10 C11 C12 C13 C14 C15 C16 C17 C18 C19}
mkdir -p ../build
for p in $ids; do
  echo "== $p $(date -u +%H:%M:%S)"
  ( ulimit -v 12000000; timeout 1800 coqchk -silent -o -Q theories EKW -Q gen EKWgen EKW.Props.$p 2>&1 | tail -25 )
done
