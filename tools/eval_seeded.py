#!/usr/bin/env python3
"""Imports seeded property-breaking changes produced by independent sub-agents, confirms each one
(tests still pass with it, its demonstration fails with it and passes without it), runs the
registered check(s) against it on /repo (patch applied, then reverted) and records the outcome.

  tools/eval_seeded.py import /tmp/seedout [Cxx ...] # confirm + copy into /verif/seeded/<id>/
  tools/eval_seeded.py run [<id> ...] [--extra]     # apply to /repo, run ./check <property>, revert
  tools/eval_seeded.py table                        # markdown summary
"""
import json
import shutil
import subprocess
import sys
from pathlib import Path

ROOT = Path("/verif")
SEEDED = ROOT / "seeded"
REPO = "/repo"
PY = "/venv/bin/python"


def sh(cmd, cwd=None, env=None, timeout=900):
    try:
        p = subprocess.run(cmd, cwd=cwd, env=env, capture_output=True, text=True, timeout=timeout, shell=isinstance(cmd, str))
        return p.returncode, p.stdout + p.stderr
    except subprocess.TimeoutExpired:
        return 124, "TIMEOUT"


def confirm(src: Path, wt: Path):
    """returns dict with what was run and observed"""
    import os
    env = dict(os.environ, PYTHONPATH=f"{wt}/src", PYTHONHASHSEED="0", PYTHONDONTWRITEBYTECODE="1")
    out = {}
    patch = src / "patch.diff"
    demo = next((p for p in [src / "demo.py", src / "test_demo.py"] if p.exists()), None)
    if not patch.exists() or demo is None:
        return {"ok": False, "why": "missing patch.diff or demo"}
    sh(["git", "checkout", "--", "."], cwd=wt)
    rc, o = sh(["git", "apply", "--check", str(patch)], cwd=wt)
    if rc != 0:
        return {"ok": False, "why": "patch does not apply: " + o[-300:]}
    demo_cmd = [PY, str(demo)] if demo.name == "demo.py" else [PY, "-m", "pytest", "-q", "-p", "no:cacheprovider", str(demo)]
    rc0, o0 = sh(demo_cmd, cwd=src, env=env, timeout=180)
    out["demo_without_change"] = f"exit {rc0}"
    sh(["git", "apply", str(patch)], cwd=wt)
    try:
        rct, ot = sh([PY, "-m", "pytest", "-q", "-p", "no:cacheprovider", "--continue-on-collection-errors", "tests/earthkit_workflows"], cwd=wt, env=env, timeout=600)
        tail = [l for l in ot.strip().split("\n") if "passed" in l or "failed" in l][-1:] or [ot[-200:]]
        out["tests_with_change"] = tail[0].strip("= ")
        rc1, o1 = sh(demo_cmd, cwd=src, env=env, timeout=180)
        out["demo_with_change"] = f"exit {rc1}: " + " | ".join(o1.strip().split("\n")[-3:])[-400:]
    finally:
        sh(["git", "checkout", "--", "."], cwd=wt)
    out["ok"] = rc0 == 0 and rc1 != 0 and "133 passed" in out["tests_with_change"] and "failed" not in out["tests_with_change"]
    return out


def do_import(srcroot, only=()):
    for pd in sorted(Path(srcroot).glob("C*")):
        pid = pd.name
        if only and pid not in only:
            continue
        wt = Path(f"/tmp/seed-{pid}")
        for sd in sorted(p for p in pd.iterdir() if p.is_dir() and (p / "patch.diff").exists()):
            sid = f"{pid}-{sd.name}"
            if (SEEDED / sid / "meta.json").exists():
                continue
            res = confirm(sd, wt)
            print(sid, "confirmed" if res.get("ok") else "REJECTED", json.dumps(res)[:300], flush=True)
            if not res.get("ok"):
                continue
            dst = SEEDED / sid
            dst.mkdir(parents=True, exist_ok=True)
            shutil.copy(sd / "patch.diff", dst / "patch.diff")
            demo = next(p for p in [sd / "demo.py", sd / "test_demo.py"] if p.exists())
            shutil.copy(demo, dst / demo.name)
            meta = {}
            try:
                meta = json.loads((sd / "meta.json").read_text())
            except Exception:
                pass
            meta.update({"id": sid, "property": pid, "author": "independent sub-agent given only the property record and a scratch worktree",
                         "confirmed": {"worktree": str(wt), **{k: v for k, v in res.items() if k != "ok"},
                                       "commands": ["git apply patch.diff", "pytest tests/earthkit_workflows (133 must pass)", "demo with change (must fail)", "git checkout -- .", "demo without change (must pass)"]}})
            (dst / "meta.json").write_text(json.dumps(meta, indent=1))


def do_run(ids, extra=False, worktree=False, dry=False):
    """worktree=True: preliminary run in the property's scratch worktree /tmp/seed-<pid> (VERIF_REPO), so that several
    properties can be evaluated in parallel while /repo is busy; the recorded run is the one on /repo itself"""
    import os
    dirs = sorted(SEEDED.iterdir()) if not ids else [SEEDED / i for i in ids]
    for d in dirs:
        meta = json.loads((d / "meta.json").read_text())
        pid = meta["property"]
        REPO = f"/tmp/seed-{pid}" if worktree else "/repo"
        if worktree:
            sh(["git", "checkout", "--", "."], cwd=REPO)
            sh(["git", "merge", "--ff-only", "main"], cwd=REPO)
        rc, o = sh(["git", "status", "--short"], cwd=REPO)
        if o.strip():
            print("refusing: /repo is not clean", o)
            return
        rc, o = sh(["git", "apply", str(d / "patch.diff")], cwd=REPO)
        if rc != 0:
            print(d.name, "patch does not apply to /repo:", o[-200:])
            continue
        results = {}
        try:
            pids = [pid] + [p for p in meta.get("also_check", [])]
            for p in pids:
                rc, o = sh(["./check", p], cwd=ROOT, timeout=1800, env=dict(os.environ, VERIF_REPO=REPO))
                lines = [l for l in o.split("\n") if l.startswith("VIOLATION") or l.startswith(f"[{p}]")]
                viol = [l for l in lines if l.startswith("VIOLATION")]
                info = {"exit": rc, "violation": viol[0] if viol else None, "summary": (lines[-1] if lines else o[-200:])}
                if viol:
                    rp = viol[0].split("replay=")[1].split()[0]
                    try:
                        r = json.loads(Path(rp).read_text())
                        info["signature"] = r.get("signature") or r.get("kind")
                        info["what"] = (r.get("what") or r.get("broken") or "")[:300]
                    except Exception:
                        pass
                results[p] = info
        finally:
            sh(["git", "checkout", "--", "."], cwd=REPO)
        if dry:      # regression pass: report, keep the recorded outcome
            ok = any(r.get("violation") for r in results.values())
            print(d.name, "CAUGHT" if ok else "MISSED", "(dry)", json.dumps(results)[:300], flush=True)
            continue
        meta["check_results"] = results
        meta["checked_on"] = REPO
        meta["caught_by"] = [p for p, r in results.items() if r.get("violation")]
        meta["caught"] = bool(meta["caught_by"])
        (d / "meta.json").write_text(json.dumps(meta, indent=1))
        print(d.name, "CAUGHT" if meta["caught"] else "MISSED", json.dumps(results)[:400], flush=True)
    # clean the replays the runs produced
    for p in (ROOT / "replays").glob("*"):
        shutil.rmtree(p, ignore_errors=True)


def do_table():
    print("| id | property | what was changed | needs | caught | how |\n|---|---|---|---|---|---|")
    for d in sorted(SEEDED.iterdir()):
        m = json.loads((d / "meta.json").read_text())
        r = m.get("check_results", {}).get(m["property"], {})
        how = (r.get("signature") or "") + (" (no-failing-input-found)" if r.get("violation") and "no-failing-input-found" in r["violation"] else "")
        print(f"| {m['id']} | {m['property']} | {m.get('summary','')[:140]} | {m.get('needs_to_manifest','')[:120]} | {'yes' if m.get('caught') else ('NO' if 'caught' in m else '?')} | {how} |")


if __name__ == "__main__":
    cmd = sys.argv[1]
    if cmd == "import":
        do_import(sys.argv[2], sys.argv[3:])
    elif cmd == "run":
        a = [x for x in sys.argv[2:] if not x.startswith("--")]
        do_run(a, extra="--extra" in sys.argv, worktree="--worktree" in sys.argv, dry="--dry" in sys.argv)
    elif cmd == "table":
        do_table()
