#!/usr/bin/env python3
"""Regenerates /verif/MANIFEST.json from the table below (kept in one place so that it stays valid)."""
import json
from pathlib import Path
ROOT = Path(__file__).resolve().parent.parent
TECH = "machine-checked proof in Coq 8.16 over an executable Gallina model + differential correspondence with the real code"
CHECKS = {
 "C12": ("Coq theorems C12_roundtrip_partial / _json_partial / _file_partial (deserialise(serialise g) == g for every well-formed graph with unique names, any size, with or without outputs on terminal nodes; side condition kw_ok: no input named self/name/outputs/payload, which Node(...) itself rejects), C12_nodes_total, two _refuted witnesses; model = pointer-graph heap (Graph/GStore.v, Graph/Export.v) transcribing Node/Graph/export; tied by byte-for-byte correspondence of serialise/deserialise/__eq__/jsonify on generated graphs.",
         "Trusted: Coq kernel+vm_compute; graphlib static_order, json, dill enter as Section hypotheses (order validated per run inside Coq by topo_okb; json/dill round trips compared per case); harness glue (object graph <-> heap numbering).", "DESIGN.md section 7 (C12)"),
 "C15": ("Coq theorems over a marker/dispatch table REGENERATED from backends/__init__.py, arrayapi.py, xarray.py on every run (translate/batchable.py): C15_generated_tables_ok, C15_marked_are_batchable (batch law for every @batchable method, both back-ends, every axis, any batches, exact rationals), C15_mean_std_var_stack_not_batchable (counter-examples), C15_reductions_any_partition, C15_multi_is_stack_then_reduce. 'Equals NumPy' is decided by oracle + correspondence on numpy / DataArray / Dataset inputs (no theorem can cover NumPy itself).",
         "Trusted: Coq kernel+vm_compute; translate/batchable.py; floating-point rounding, NaN/inf, general broadcasting and xarray coordinate alignment are outside the model (compared exactly on integer-valued data, within ulp tolerance otherwise, counted separately).", "DESIGN.md section 8 (C15)"),
 "C17": ("Coq theorems (C17_shm_roundtrip, C17_sizes_up_to_2_64, C17_out_of_domain_rejected) over byte layouts REGENERATED from cascade/shm/api.py on every run by an ast translator; generic codec lemmas proved once for all field values. Pickle/orjson/pydantic halves (executor messages, reports, gateway envelope, JobInstance JSON) are sampled round-trip oracles on the real code: proof for the shm protocol, partial (testing) for the library-backed encodings.",
         "Trusted: Coq kernel+vm_compute; translate/shm_api.py (validated each run by byte-exact ser/deser correspondence incl. malformed bytes); pickle/cloudpickle/orjson/pydantic not modelled; UDP 1024-byte datagram limit not modelled.", "DESIGN.md section 9 (C17)"),
 "C18": ("Ten Coq theorems over an operation-history model of JobRouter + handle_fe/handle_controller + serve dispatch (Gateway/Router.v), by induction over arbitrary histories: progress shown = first report with the greatest timestamp (shutdown/None ignored), results exact per (job, dataset), ids never reused for any uuid stream, unknown ids give local errors, queries are local, loop never left. Tied by replaying generated and exhaustive small-scope histories through the real handlers with scripted sockets.",
         "Trusted: Coq kernel+vm_compute; parse_request/serialize_response/pickle are in the loop on the implementation side only; _spawn_subprocess patched out; real zmq poll loop not modelled.", "DESIGN.md section 9 (C18)"),
 "C19": ("Eight Coq theorems over a model of TaskBuilder/JobBuilder (Low/Builders.v): accepted job well-formed, problems returned otherwise (never raised for builtin/absent annotations), values at the given positions and names, earlier builders unchanged; eval-based type tests are Section oracles. Tied by correspondence on generated builder trees (every node of the tree is built and compared) plus an exhaustive edge/endpoint matrix.",
         "Trusted: Coq kernel+vm_compute; isinstance/issubclass/eval as Section variables instantiated on a closed set of builtin types in the correspondence; pydantic validation and cloudpickle not modelled; persistence of Python objects is observed on every tree, not proved.", "DESIGN.md section 7 (C19)"),
}
NA_REASON = "check under construction in this session (not yet claimed); see DESIGN.md for the plan"
SOURCE_COMMITS = []  # filled from /repo's git log: every commit after the pinned one is a fix


def main():
    import subprocess
    props = [json.loads(l)["id"] for l in (ROOT / "properties.jsonl").open()]
    log = subprocess.run(["git", "-C", "/repo", "log", "--format=%h %s", "232612d..HEAD"], capture_output=True, text=True).stdout.strip().split("\n")
    commits = [l.split()[0] for l in reversed(log) if l]
    m = {
        "version": 1,
        "setup_cmd": "./setup.sh",
        "hooks": {"guard": "ECMWF_EARTHKIT_WORKFLOWS_VERIF",
                  "enable": "no source hooks are needed: every seam used (zmq sockets, clocks, thread pools, Bridge, shm client) is replaced from outside by the harness; the variable is exported by ./check but guards no line of /repo. source_commits lists the unguarded `fix:` commits (repairs of genuine defects, see known_findings.json)",
                  "baseline_off_cmd": "cd /repo && /venv/bin/python -m pytest -ra -q -p no:cacheprovider --timeout=900 --continue-on-collection-errors",
                  "source_commits": commits, "add_only": True},
        "engines": [{"name": "coq-proof+correspondence", "path": "/verif/check", "serves_properties": sorted(CHECKS),
                     "kind_free_text": "Coq 8.16.1 theorems over Gallina models (coq/theories), translators (translate/) and differential correspondence harness (harness/)"}],
        "checks": [], "not_applicable": [], "notes": "see DESIGN.md",
    }
    for pid in props:
        if pid in CHECKS:
            text, note, ref = CHECKS[pid]
            m["checks"].append({"property_id": pid, "quick_cmd": f"./check {pid} --tier quick", "thorough_cmd": f"./check {pid} --tier thorough",
                                "evidence_file": f"/verif/evidence/{pid}.json", "replay_cmd_template": f"./check {pid} --replay {{path}}",
                                "engine": "coq-proof+correspondence", "level_claimed": {"category": "proof", "text": text, "design_ref": ref},
                                "level_note": note, "technique": TECH})
        else:
            m["not_applicable"].append({"property_id": pid, "reason": NA_REASON})
    (ROOT / "MANIFEST.json").write_text(json.dumps(m, indent=1))


if __name__ == "__main__":
    main()
