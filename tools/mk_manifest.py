#!/usr/bin/env python3
"""Regenerates /verif/MANIFEST.json from the table below (kept in one place so that it stays valid)."""
import json
from pathlib import Path
ROOT = Path(__file__).resolve().parent.parent
TECH = "machine-checked proof in Coq 8.16 over an executable Gallina model + differential correspondence with the real code"
CHECKS = {
 "C02": ("Coq theorems over an executable model of the controller (assign/act/plan/flush/notify) composed with a maximally asynchronous cluster (Sched/Model.v): a 31-clause invariant is preserved by every step (Sched/Inv*.v), for ANY label sequence = any heuristic choice, completion order and event delivery order; corollaries C02_dispatch_at_most_once, C02_dispatch_ok (idle, free, GPU-suitable worker; inputs produced and on host or in transit from a holding source), C02_held_task_inputs, C02_start_needs_inputs, C02_no_double_enqueue_no_crash; worker receive loop modelled and proved separately (C02_worker_starts_after_arrival). Tied by replaying every recorded run of the real controller loop (fake cluster behind the Bridge seam) and of the real worker loop on the model. 'At least once' is C03's completion theorem.",
         "Trusted: Coq kernel+vm_compute; fake cluster + id mapping in harness/sched_common.py; distance/overhead tables of the heuristic are not modelled (its choices are read from the trace and validated); one task per TaskSequence.", "DESIGN.md section 4 (C02)"),
 "C04": ("Coq theorems from the same invariant as C02: C04_purge_sound (a purge in flight: every consumer completed, requested value delivered, no unanswered transfer/fetch of it anywhere, no waiting/running/future task needs it), C04_transfer_source_holds, C04_fetch_source_holds, C04_never_fails (no transfer or fetch ever finds its source empty) -- for every schedule and event interleaving. The double-fetch defect that made the full statement false was repaired (fix: commit) and the model is of the fixed code. Tied by trace replay of the real controller and by cluster-side oracles on every purge/transmit/fetch call.",
         "Trusted: as C02. Cluster semantics assumed: a transfer/fetch reads its source when it completes; purge/transfer/publication messages may overtake each other arbitrarily.", "DESIGN.md section 4 (C04)"),
 "C05": ("PARTIAL by nature. Logic proved in Coq (Net/Executor.v): C05_child_death_detected (any exit code incl. 0), C05_failure_is_reported, C05_task_failure_not_silent, C05_failure_ends_run, C05_terminate_covers_children / _no_live_child / _idempotent, C05_history_invariant by induction over all histories; C05_no_segments_left_refuted + _partial for the SIGKILLed shm server (open finding). Runtime half = bounded fault enumeration on REAL processes (harness/c05_faults.py: task raises / sys.exit / os._exit / SIGKILL before, between, after publishing; kill of data server and shm server) asserting run ends within a deadline, no child processes, no /dev/shm segments.",
         "Trusted: Coq kernel; OS process reaping, zmq linger and kernel shm lifetime cannot be modelled and are only observed on the enumerated scenarios; C06 delivery and C07 payload integrity enter as hypotheses.", "DESIGN.md section 5 (C05)"),
 "C06": ("Twelve Coq theorems over a model of Listener / ReliableSender / the two receive loops composed with a lossy, duplicating, reordering network (Net/Reliable*.v, Net/Frames*.v): at-most-once, exactly-once-or-still-in-flight-with-budget, ack implies delivered, retry progress and give-up bound (bounded retries then raise), only the give-up raises, malformed multipart shapes rejected / legal ones round-trip -- for every operation list. Tied by driving the real classes over a fake zmq and clock and replaying each trace in Coq.",
         "Trusted: Coq kernel+vm_compute; pickle itself is not modelled; the network does not forge frames; one sender per listener address.", "DESIGN.md section 5 (C06)"),
 "C07": ("Eleven Coq theorems over a small-step model of DataServer (Net/DataServer.v) x shm store x lossy network: stored/in-flight/fetched bytes equal the source's, announce at most once and only if stored, purge waits for running jobs, no resurrection after purge, late payloads discarded; progress steps proved one by one (C07_progress_steps_partial: end-to-end completion needs fairness and is checked by the oracle after a loss-free drain). Tied by driving the real DataServer with scripted Listener, manual thread pool and recording shm client, each trace replayed in Coq.",
         "Trusted: Coq kernel+vm_compute; pool jobs are atomic in the model; ds2shmid injective (C01 fix); pickle framing is C06's.", "DESIGN.md section 5 (C07)"),
 "C10": ("Ten Coq theorems over models of node2task/graph2job/param_source and runner.run + Memory + is_last_output_of + fluent output naming (Low/Into.v, Low/Runner.v): lowering shape, one edge per placeholder occurrence, call arguments correct (partial: regrouping by param_source tied by correspondence), yield i bound to the i-th key-sorted output for every n (zero-padded fluent names make string order = numeric order), count mismatch always fails, last-output consistency; n=1 yields case is a recorded finding (_refuted). Tied by running real graph2job and real runner.run with a dict-backed Memory.",
         "Trusted: Coq kernel+vm_compute; callables are Section variables; cloudpickle/pydantic/shm publication not modelled.", "DESIGN.md section 7 (C10)"),
 "C13": ("Coq theorems over a mini-xarray of nodes and a transcription of the fluent Action API (Fluent/XArr.v, Action.v, Batch.v): reduce cell/dims spec with and without keep_dim, batching never changes values for ANY batch size under the batch law, never fails, loop terminates, batched mean equals mean over any field, variance identity for batched std (C13_std_batched_eq_partial: cell-level composition tied by correspondence), map/broadcast/select specs. Tied by running generated fluent programs on the real API and comparing dims/coords/cell expressions in Coq, plus a NumPy reference oracle at every coordinate.",
         "Trusted: Coq kernel+vm_compute; one batching round is modelled in closed form (validated by correspondence); xarray re-alignment cases outside the generator are Err Unsupported; floating point outside the model.", "DESIGN.md section 8 (C13)"),
 "C16": ("Nine full-strength Coq theorems over a transcription of views.dependants/param_source and scheduler.graph.precompute (decompose, enrich, nearest common descendant, sort): components are exactly the weakly connected components (partition, closed, connected), sorted by weight, sources exact, edge maps exact, value = depth - distance to nearest sink, depth = longest chain, distance matrix = least common-descendant radius -- for every well-formed acyclic job. Termination of precompute is sampled, not proved. Tied by correspondence on exhaustive small DAGs and random DAGs.",
         "Trusted: Coq kernel+vm_compute; CPython set iteration order abstracted (lemmas hold for any adjacency order); coptrs branch not modelled; wf_job includes 'no input slot fed by two edges'.", "DESIGN.md section 7 (C16)"),
 "C12": ("Coq theorems C12_roundtrip_partial / _json_partial / _file_partial (deserialise(serialise g) == g for every well-formed graph with unique names, any size, with or without outputs on terminal nodes; side condition kw_ok: no input named self/name/outputs/payload, which Node(...) itself rejects), C12_nodes_total, two _refuted witnesses; model = pointer-graph heap (Graph/GStore.v, Graph/Export.v) transcribing Node/Graph/export; tied by byte-for-byte correspondence of serialise/deserialise/__eq__/jsonify on generated graphs.",
         "Trusted: Coq kernel+vm_compute; graphlib static_order, json, dill enter as Section hypotheses (order validated per run inside Coq by topo_okb; json/dill round trips compared per case); harness glue (object graph <-> heap numbering).", "DESIGN.md section 7 (C12)"),
 "C15": ("Coq theorems over a marker/dispatch table REGENERATED from backends/__init__.py, arrayapi.py, xarray.py on every run (translate/batchable.py): C15_generated_tables_ok, C15_marked_are_batchable (batch law for every @batchable method, both back-ends, every axis, any batches, exact rationals), C15_mean_std_var_stack_not_batchable (counter-examples), C15_reductions_any_partition, C15_multi_is_stack_then_reduce. 'Equals NumPy' is decided by oracle + correspondence on numpy / DataArray / Dataset inputs (no theorem can cover NumPy itself).",
         "Trusted: Coq kernel+vm_compute; translate/batchable.py; floating-point rounding, NaN/inf, general broadcasting and xarray coordinate alignment are outside the model (compared exactly on integer-valued data, within ulp tolerance otherwise, counted separately).", "DESIGN.md section 8 (C15)"),
 "C17": ("Coq theorems (C17_shm_roundtrip, C17_sizes_up_to_2_64, C17_out_of_domain_rejected) over byte layouts REGENERATED from cascade/shm/api.py on every run by an ast translator; generic codec lemmas proved once for all field values. Pickle/orjson/pydantic halves (executor messages, reports, gateway envelope, JobInstance JSON) are sampled round-trip oracles on the real code: proof for the shm protocol, partial (testing) for the library-backed encodings.",
         "Trusted: Coq kernel+vm_compute; translate/shm_api.py (validated each run by byte-exact ser/deser correspondence incl. malformed bytes); pickle/cloudpickle/orjson/pydantic not modelled; UDP 1024-byte datagram limit not modelled.", "DESIGN.md section 9 (C17)"),
 "C18": ("Ten Coq theorems over an operation-history model of JobRouter + handle_fe/handle_controller + serve dispatch (Gateway/Router.v), by induction over arbitrary histories: progress shown = first report with the greatest timestamp (shutdown/None ignored), results exact per (job, dataset), ids never reused for any uuid stream, unknown ids give local errors, queries are local, loop never left. Tied by replaying generated and exhaustive small-scope histories through the real handlers with scripted sockets.",
         "Trusted: Coq kernel+vm_compute; parse_request/serialize_response/pickle are in the loop on the implementation side only; _spawn_subprocess patched out; real zmq poll loop not modelled.", "DESIGN.md section 9 (C18)"),
 "C19": ("Eight Coq theorems over a model of TaskBuilder/JobBuilder (Low/Builders.v): accepted job well-formed, problems returned otherwise (never raised for builtin/absent annotations), values at the given positions and names, earlier builders unchanged; eval-based type tests are Section oracles. Tied by correspondence on generated builder trees (every node of the tree is built and compared) plus an exhaustive edge/endpoint matrix.",
         "Trusted: Coq kernel+vm_compute; isinstance/issubclass/eval as Section variables instantiated on a closed set of builtin types in the correspondence; pydantic validation and cloudpickle not modelled; persistence of Python objects is observed on every tree, not proved.", "DESIGN.md section 7 (C19)"),
}
NA_REASON = "check under construction in this session (not yet claimed); see DESIGN.md for the plan"
SOURCE_COMMITS = []  # filled from /repo's git log: every commit after the pinned one is a fix


def main():
    import subprocess
    props = [json.loads(l)["id"] for l in (ROOT / "properties.jsonl").open()]
    log = subprocess.run(["git", "-C", "/repo", "log", "--format=%h %s", "232612d..HEAD"], capture_output=True, text=True).stdout.strip().split("\n")
    commits = [l.split()[0] for l in reversed(log) if l]
    m = {
        "version": 1,
        "setup_cmd": "./setup.sh",
        "hooks": {"guard": "ECMWF_EARTHKIT_WORKFLOWS_VERIF",
                  "enable": "no source hooks are needed: every seam used (zmq sockets, clocks, thread pools, Bridge, shm client) is replaced from outside by the harness; the variable is exported by ./check but guards no line of /repo. source_commits lists the unguarded `fix:` commits (repairs of genuine defects, see known_findings.json)",
                  "baseline_off_cmd": "cd /repo && /venv/bin/python -m pytest -ra -q -p no:cacheprovider --timeout=900 --continue-on-collection-errors",
                  "source_commits": commits, "add_only": True},
        "engines": [{"name": "coq-proof+correspondence", "path": "/verif/check", "serves_properties": sorted(CHECKS),
                     "kind_free_text": "Coq 8.16.1 theorems over Gallina models (coq/theories), translators (translate/) and differential correspondence harness (harness/)"}],
        "checks": [], "not_applicable": [], "notes": "see DESIGN.md",
    }
    for pid in props:
        if pid in CHECKS:
            text, note, ref = CHECKS[pid]
            m["checks"].append({"property_id": pid, "quick_cmd": f"./check {pid} --tier quick", "thorough_cmd": f"./check {pid} --tier thorough",
                                "evidence_file": f"/verif/evidence/{pid}.json", "replay_cmd_template": f"./check {pid} --replay {{path}}",
                                "engine": "coq-proof+correspondence", "level_claimed": {"category": "proof", "text": text, "design_ref": ref},
                                "level_note": note, "technique": TECH})
        else:
            m["not_applicable"].append({"property_id": pid, "reason": NA_REASON})
    (ROOT / "MANIFEST.json").write_text(json.dumps(m, indent=1))


if __name__ == "__main__":
    main()
