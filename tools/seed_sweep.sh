#!/bin/bash
# tools/seed_sweep.sh "<seeds>" "<tier>" [pids...]  -- run checks on the unchanged tree for several seeds; any VIOLATION is a false alarm to investigate
cd /verif
seeds=${1:-"1 2 3"}; tier=${2:-quick}; shift 2
pids=${@:-C01 C02 C03 C04 C05 C06 C07 C08 C09 C10 C11 C12 C13 C14 C15 C16 C17 C18 C19}
for s in $seeds; do for p in $pids; do
  out=$(VERIF_SEED=$s ./check $p --tier $tier 2>&1 | grep "^\[C\|^VIOLATION"); echo "seed=$s $out"
done; done
