"""Fail-closed translator: src/earthkit/workflows/backends/{__init__,arrayapi,xarray}.py -> coq/gen/Batchable.v

Reads with the `ast` module only (nothing is imported):
  * class `Backend` of backends/__init__.py: every method, its decorators (`@batchable`, `@num_args(n)`),
    and the back-end method it forwards to (`return array_module(...).<target>(...)`);
  * the decorator `batchable` itself (must set `func.batchable = True` and return func);
  * for ArrayAPIBackend and XArrayBackend: which helper and which NumPy/xarray function name each
    method resolves to (`_xp_multi_args("sum", ...)`, `XArrayBackend.multi_arg_function("sum", ...)`,
    `XArrayBackend.two_arg_function("add", ...)`, `args[0] + args[1]`); every other body is recorded as
    INative (its meaning is the method's own name; tied to the code by the value correspondence only);
  * any other place in src/earthkit/workflows that sets a `.batchable` attribute or uses `@batchable`
    is an error (the table would be incomplete).
The output is a description (tables); the theorems in Props/C15.v are re-checked against it by the kernel.
Any shape it does not understand aborts with a non-zero exit and leaves a file that cannot compile."""
import ast
import sys
from pathlib import Path


class Unsupported(Exception):
    pass


def bail(node, why):
    raise Unsupported(f"line {getattr(node, 'lineno', '?')}: {why}: {ast.unparse(node)[:140]}")


def coq_str(s):
    return '"' + s.replace('"', '""') + '"'


def strip_doc(body):
    return [s for s in body if not (isinstance(s, ast.Expr) and isinstance(s.value, ast.Constant) and isinstance(s.value.value, str))]


def check_batchable_decorator(tree):
    fns = {n.name: n for n in tree.body if isinstance(n, ast.FunctionDef)}
    if "batchable" not in fns:
        raise Unsupported("decorator `batchable` not found in backends/__init__.py")
    fn = fns["batchable"]
    body = "\n".join(ast.unparse(s) for s in strip_doc(fn.body))
    arg = fn.args.args[0].arg if fn.args.args else "?"
    if body != f"{arg}.batchable = True\nreturn {arg}":
        raise Unsupported("decorator `batchable` changed: " + body)


def facade(tree):
    """class Backend: [(method, target, marked, nargs)]"""
    cls = [n for n in tree.body if isinstance(n, ast.ClassDef) and n.name == "Backend"]
    if len(cls) != 1:
        raise Unsupported("class Backend not found exactly once")
    out = []
    for s in strip_doc(cls[0].body):
        if not isinstance(s, ast.FunctionDef):
            bail(s, "unsupported statement in class Backend")
        marked, nargs = False, 0
        for d in s.decorator_list:
            if isinstance(d, ast.Name) and d.id == "batchable":
                marked = True
            elif (isinstance(d, ast.Call) and isinstance(d.func, ast.Name) and d.func.id == "num_args" and len(d.args) == 1
                  and isinstance(d.args[0], ast.Constant) and isinstance(d.args[0].value, int) and not d.keywords):
                nargs = d.args[0].value
            else:
                bail(d, f"unknown decorator on Backend.{s.name}")
        body = strip_doc(s.body)
        if len(body) != 1 or not isinstance(body[0], ast.Return):
            bail(s, f"Backend.{s.name} body must be a single return")
        e = body[0].value
        if isinstance(e, ast.Name) and s.name == "trivial":
            out.append((s.name, "", marked, nargs))
            continue
        # array_module(<...>).<target>(<...>)
        if not (isinstance(e, ast.Call) and isinstance(e.func, ast.Attribute) and isinstance(e.func.value, ast.Call)
                and isinstance(e.func.value.func, ast.Name) and e.func.value.func.id == "array_module"):
            bail(e, f"Backend.{s.name} does not forward to array_module(...).<method>(...)")
        out.append((s.name, e.func.attr, marked, nargs))
    names = [m for m, _, _, _ in out]
    if len(set(names)) != len(names):
        raise Unsupported("duplicate method in class Backend (the later definition silently wins)")
    return out


BINOPS = {ast.Add: "add", ast.Sub: "subtract", ast.Mult: "multiply", ast.Div: "divide", ast.Pow: "power"}
HELPERS = {"_xp_multi_args": "IReduce", "XArrayBackend.multi_arg_function": "IReduce", "XArrayBackend.two_arg_function": "IBin"}


def impl_of(fn):
    body = strip_doc(fn.body)
    if len(body) == 1 and isinstance(body[0], ast.Return) and body[0].value is not None:
        e = body[0].value
        if isinstance(e, ast.Call) and ast.unparse(e.func) in HELPERS and e.args and isinstance(e.args[0], ast.Constant) and isinstance(e.args[0].value, str):
            return f"{HELPERS[ast.unparse(e.func)]} {coq_str(e.args[0].value)}"
        if isinstance(e, ast.BinOp) and type(e.op) in BINOPS:
            l, r = ast.unparse(e.left), ast.unparse(e.right)
            if (l, r) == ("args[0]", "args[1]"):
                return f"IBin {coq_str(BINOPS[type(e.op)])}"
            return f"IOther {coq_str(ast.unparse(e)[:60])}"
    return "INative"


def backend_table(path, clsname):
    tree = ast.parse(path.read_text())
    cls = [n for n in tree.body if isinstance(n, ast.ClassDef) and n.name == clsname]
    if len(cls) != 1:
        raise Unsupported(f"class {clsname} not found in {path.name}")
    out, seen = [], set()
    for s in cls[0].body:
        if isinstance(s, ast.FunctionDef):
            if s.name in seen:
                raise Unsupported(f"duplicate method {clsname}.{s.name}")
            seen.add(s.name)
            out.append((s.name, impl_of(s)))
    return out


def stray_markers(pkg: Path, init: Path):
    """`.batchable = ...` or `@batchable`/`batchable(f)` anywhere except the decorator definition and class Backend."""
    bad = []
    for p in sorted(pkg.rglob("*.py")):
        tree = ast.parse(p.read_text())
        for n in ast.walk(tree):
            if isinstance(n, ast.Attribute) and n.attr == "batchable" and isinstance(n.ctx, (ast.Store, ast.Del)):
                if p == init and ast.unparse(n) == "func.batchable":
                    continue
                bad.append(f"{p.name}:{n.lineno} assigns {ast.unparse(n)}")
            if isinstance(n, ast.Call) and isinstance(n.func, ast.Name) and n.func.id in ("setattr", "delattr") and len(n.args) >= 2 \
                    and isinstance(n.args[1], ast.Constant) and n.args[1].value == "batchable":
                bad.append(f"{p.name}:{n.lineno} {ast.unparse(n)[:60]}")
            if isinstance(n, ast.Call) and ast.unparse(n.func).split(".")[-1] == "batchable":
                bad.append(f"{p.name}:{n.lineno} calls batchable(...) outside a decorator")
            if isinstance(n, (ast.FunctionDef, ast.ClassDef)) and p != init:
                for d in n.decorator_list:
                    if ast.unparse(d).split(".")[-1] == "batchable":
                        bad.append(f"{p.name}:{n.lineno} @batchable on {n.name}")
    return bad


def main(repo, gen):
    pkg = Path(repo) / "src/earthkit/workflows"
    init = pkg / "backends/__init__.py"
    tree = ast.parse(init.read_text())
    check_batchable_decorator(tree)
    fac = facade(tree)
    # module-level decorated functions in __init__ other than methods of Backend
    for n in tree.body:
        if isinstance(n, ast.FunctionDef):
            for d in n.decorator_list:
                if ast.unparse(d).split(".")[-1] == "batchable":
                    raise Unsupported(f"@batchable on module-level function {n.name}")
    bad = stray_markers(pkg, init)
    if bad:
        raise Unsupported("batchable marker outside class Backend: " + "; ".join(bad))
    aapi = backend_table(pkg / "backends/arrayapi.py", "ArrayAPIBackend")
    xarr = backend_table(pkg / "backends/xarray.py", "XArrayBackend")

    def tab(t):
        return "[" + ";\n   ".join(f"({coq_str(m)}, {i})" for m, i in t) + "]"

    lines = [
        "(* GENERATED by /verif/translate/batchable.py from src/earthkit/workflows/backends/*.py -- do not edit *)",
        "From Coq Require Import List String.",
        "From EKW Require Import Backends.Ops.",
        "Import ListNotations.",
        "Open Scope string_scope.",
        "",
        "(* class Backend: (method, back-end method it forwards to, carries @batchable, num_args) *)",
        "Definition backend_facade : list (string * string * bool * nat) :=",
        "  [" + ";\n   ".join(f"({coq_str(m)}, {coq_str(t)}, {'true' if b else 'false'}, {k})" for m, t, b, k in fac) + "].",
        "",
        "Definition arrayapi_table : list (string * impl) :=\n  " + tab(aapi) + ".",
        "",
        "Definition xarray_table : list (string * impl) :=\n  " + tab(xarr) + ".",
        "",
    ]
    Path(gen).mkdir(parents=True, exist_ok=True)
    p = Path(gen) / "Batchable.v"
    txt = "\n".join(lines)
    if not p.exists() or p.read_text() != txt:
        p.write_text(txt)


if __name__ == "__main__":
    try:
        main(sys.argv[1], sys.argv[2])
    except Exception as e:  # Unsupported shape, syntax error, missing file ...
        # The current shape of the source is not one this translator understands.  Install the pinned table (the
        # translation of the code as it was when the proofs were written): the theorems are then about that table and
        # ONLY the correspondence run of the check ties it to the current code (exit code 3 tells the driver so).
        # Without a pinned table: fail closed with a file that cannot compile, so that no stale table is ever used.
        p = Path(sys.argv[2]) / "Batchable.v"
        p.parent.mkdir(parents=True, exist_ok=True)
        pinned = Path(__file__).parent / "pinned" / "Batchable.v"
        why = ("%s: %s" % (type(e).__name__, e)).replace("\n", " ")
        if pinned.exists():
            txt = pinned.read_text()
            if not p.exists() or p.read_text() != txt:
                p.write_text(txt)
            print("FALLBACK to pinned table:", why[:500])
            sys.exit(3)
        p.write_text("(* translator failed: %s *)\nTranslator_failed_see_comment.\n" % why.replace("*)", "* )").replace("(*", "( *"))
        print("UNSUPPORTED:", why, file=sys.stderr)
        sys.exit(2)
