"""Fail-closed translator: /repo/src/cascade/shm/api.py  ->  coq/gen/ShmLayouts.v

Reads, with the `ast` module only (the source is never imported), for every class that
defines or inherits `ser`/`deser`:
  * the dataclass fields,
  * the byte layout `ser` writes  (a `+` chain of `self.f.to_bytes(W,"big")`,
    `self.f.value.to_bytes(W,"big")`, `ser_str(self.f)`, or `b""`),
  * the byte layout `deser` reads (a sequence of `x, data = int.from_bytes(data[:W],"big"), data[W:]`,
    `x, data = deser_str(data)`, `x, _ = Enum(int.from_bytes(data[:W],"big")), data[W:]`,
    `x = int.from_bytes(data[:W], "big")`, then `return cls(field=x, ...)`),
  * the tag table `b2c`, the enum value sets, the widths used by ser_str/deser_str.
Any statement shape it does not know aborts the translation with a non-zero exit."""
import ast
import sys
from pathlib import Path


class Unsupported(Exception):
    pass


def bail(node, why):
    raise Unsupported(f"line {getattr(node, 'lineno', '?')}: {why}: {ast.unparse(node)[:120]}")


def coq_str(s):
    return '"' + s.replace('"', '""') + '"'


def const_int(n):
    if isinstance(n, ast.Constant) and isinstance(n.value, int):
        return n.value
    bail(n, "expected int constant")


def is_big(n):
    return isinstance(n, ast.Constant) and n.value == "big"


def parse_ser_term(t, enums, field_types):
    # ser_str(self.f)
    if isinstance(t, ast.Call) and isinstance(t.func, ast.Name) and t.func.id == "ser_str":
        (a,) = t.args
        if isinstance(a, ast.Attribute) and isinstance(a.value, ast.Name) and a.value.id == "self":
            return (a.attr, "KStr")
        bail(t, "ser_str argument")
    # self.f.to_bytes(W, "big")  /  self.f.value.to_bytes(W, "big")
    if isinstance(t, ast.Call) and isinstance(t.func, ast.Attribute) and t.func.attr == "to_bytes":
        if len(t.args) != 2 or not is_big(t.args[1]) or t.keywords:
            bail(t, "to_bytes arguments")
        w = const_int(t.args[0])
        tgt = t.func.value
        if isinstance(tgt, ast.Attribute) and isinstance(tgt.value, ast.Name) and tgt.value.id == "self":
            return (tgt.attr, f"KInt {w}")
        if (isinstance(tgt, ast.Attribute) and tgt.attr == "value" and isinstance(tgt.value, ast.Attribute)
                and isinstance(tgt.value.value, ast.Name) and tgt.value.value.id == "self"):
            f = tgt.value.attr
            en = field_types.get(f)
            if en not in enums:
                bail(t, f"field {f} uses .value but its annotation {en} is not a known Enum")
            return (f, f"KEnum {w} [{'; '.join(str(v) + '%Z' for v in enums[en])}]")
    bail(t, "unsupported ser term")


def flatten_add(e):
    if isinstance(e, ast.BinOp) and isinstance(e.op, ast.Add):
        return flatten_add(e.left) + flatten_add(e.right)
    return [e]


def parse_ser(fn, enums, field_types):
    body = [s for s in fn.body if not (isinstance(s, ast.Expr) and isinstance(s.value, ast.Constant))]
    if len(body) != 1 or not isinstance(body[0], ast.Return):
        bail(fn, "ser body must be a single return")
    e = body[0].value
    if isinstance(e, ast.Constant) and e.value == b"":
        return []
    return [parse_ser_term(t, enums, field_types) for t in flatten_add(e)]


def parse_from_bytes(e, buf):
    """int.from_bytes(<buf>[:W], "big") -> W"""
    if not (isinstance(e, ast.Call) and isinstance(e.func, ast.Attribute) and e.func.attr == "from_bytes"
            and isinstance(e.func.value, ast.Name) and e.func.value.id == "int"):
        return None
    if len(e.args) != 2 or not is_big(e.args[1]) or e.keywords:
        bail(e, "from_bytes arguments")
    s = e.args[0]
    if not (isinstance(s, ast.Subscript) and isinstance(s.value, ast.Name) and s.value.id == buf
            and isinstance(s.slice, ast.Slice) and s.slice.lower is None and s.slice.step is None):
        bail(e, "from_bytes slice")
    return const_int(s.slice.upper)


def is_rest(e, buf, w):
    return (isinstance(e, ast.Subscript) and isinstance(e.value, ast.Name) and e.value.id == buf
            and isinstance(e.slice, ast.Slice) and e.slice.upper is None and e.slice.step is None
            and const_int(e.slice.lower) == w)


def parse_deser(fn, enums):
    args = [a.arg for a in fn.args.args]
    if len(args) != 2:
        bail(fn, "deser signature")
    buf = args[1]
    seq = []  # (var, kind)
    ret = None
    live = True  # the buffer variable still denotes "remaining bytes"
    for s in fn.body:
        if isinstance(s, ast.Expr) and isinstance(s.value, ast.Constant):
            continue
        if isinstance(s, ast.Return):
            ret = s.value
            break
        if not isinstance(s, ast.Assign) or len(s.targets) != 1:
            bail(s, "unsupported statement in deser")
        if not live:
            bail(s, "read after the remaining-bytes variable was dropped")
        tgt, val = s.targets[0], s.value
        if isinstance(tgt, ast.Tuple):
            if len(tgt.elts) != 2 or not all(isinstance(x, ast.Name) for x in tgt.elts):
                bail(s, "tuple target")
            var, rest = tgt.elts[0].id, tgt.elts[1].id
            if rest not in (buf, "_"):
                bail(s, "remaining bytes must be rebound to the buffer or dropped as _")
            if isinstance(val, ast.Call) and isinstance(val.func, ast.Name) and val.func.id == "deser_str":
                if not (len(val.args) == 1 and isinstance(val.args[0], ast.Name) and val.args[0].id == buf):
                    bail(s, "deser_str argument")
                seq.append((var, "KStr"))
            elif isinstance(val, ast.Tuple) and len(val.elts) == 2:
                e0, e1 = val.elts
                w = parse_from_bytes(e0, buf)
                if w is not None:
                    kind = f"KInt {w}"
                elif isinstance(e0, ast.Call) and isinstance(e0.func, ast.Name) and e0.func.id in enums and len(e0.args) == 1:
                    w = parse_from_bytes(e0.args[0], buf)
                    if w is None:
                        bail(s, "enum argument")
                    kind = f"KEnum {w} [{'; '.join(str(v) + '%Z' for v in enums[e0.func.id])}]"
                else:
                    bail(s, "unsupported first tuple element")
                if not is_rest(e1, buf, w):
                    bail(s, "remaining bytes must be <buf>[W:] with the same W")
                seq.append((var, kind))
            else:
                bail(s, "unsupported tuple assignment")
            if rest == "_":
                live = False
        elif isinstance(tgt, ast.Name):
            w = parse_from_bytes(val, buf)
            if w is None:
                bail(s, "unsupported plain assignment")
            seq.append((tgt.id, f"KInt {w}"))
            live = False
        else:
            bail(s, "unsupported target")
    if not (isinstance(ret, ast.Call) and isinstance(ret.func, ast.Name) and ret.func.id == "cls" and not ret.args):
        bail(fn, "deser must end with return cls(k=v, ...)")
    var2field = {}
    for kw in ret.keywords:
        if not isinstance(kw.value, ast.Name):
            bail(ret, "cls keyword value must be a variable")
        if kw.value.id in var2field:
            bail(ret, "variable passed to two fields")
        var2field[kw.value.id] = kw.arg
    out = []
    for var, kind in seq:
        if var not in var2field:
            bail(ret, f"decoded variable {var} is not passed to cls")
        out.append((var2field[var], kind))
    if len(out) != len(ret.keywords):
        bail(ret, "cls receives a variable that was not decoded")
    return out


def parse_str_widths(tree):
    """check ser_str / deser_str have the shape the Coq model hard-codes (4-byte length, ascii)"""
    fns = {n.name: n for n in tree.body if isinstance(n, ast.FunctionDef)}
    s = ast.unparse(fns["ser_str"].body[-1]).replace('"', "'")
    if s != "return len(s).to_bytes(4, 'big') + s.encode('ascii')":
        raise Unsupported("ser_str changed: " + s)
    d = "\n".join(ast.unparse(x) for x in fns["deser_str"].body).replace('"', "'")
    if d != "l = int.from_bytes(b[:4], 'big')\nreturn (str(b[4:4 + l], 'ascii'), b[4 + l:])":
        raise Unsupported("deser_str changed: " + d)
    top_ser = "\n".join(ast.unparse(x) for x in fns["ser"].body)
    if top_ser != "m = c2b[type(comm)] + comm.ser()\nreturn m":
        raise Unsupported("api.ser changed: " + top_ser)
    top_de = "\n".join(ast.unparse(x) for x in fns["deser"].body)
    if top_de != "data = memoryview(data)\nreturn b2c[data[:1]].deser(data[1:])":
        raise Unsupported("api.deser changed: " + top_de)


def main(repo, gen):
    src = Path(repo) / "src/cascade/shm/api.py"
    tree = ast.parse(src.read_text())
    parse_str_widths(tree)
    classes = {n.name: n for n in tree.body if isinstance(n, ast.ClassDef)}
    # enums: class X(int, Enum) with auto() members -> values 1..n ; explicit ints accepted
    enums = {}
    for name, c in classes.items():
        if any(isinstance(b, ast.Name) and b.id == "Enum" for b in c.bases):
            vals, nxt = [], 1
            for s in c.body:
                if isinstance(s, ast.Assign) and len(s.targets) == 1 and isinstance(s.targets[0], ast.Name):
                    v = s.value
                    if isinstance(v, ast.Call) and isinstance(v.func, ast.Name) and v.func.id == "auto":
                        vals.append(nxt)
                    elif isinstance(v, ast.Constant) and isinstance(v.value, int):
                        vals.append(v.value)
                    else:
                        bail(s, "enum member")
                    nxt = vals[-1] + 1
                elif isinstance(s, ast.Expr) and isinstance(s.value, ast.Constant):
                    pass
                else:
                    bail(s, "enum body")
            enums[name] = vals

    def own(c, meth):
        for s in c.body:
            if isinstance(s, ast.FunctionDef) and s.name == meth:
                return s
        return None

    def resolve(c, meth):
        f = own(c, meth)
        if f:
            return f
        for b in c.bases:
            if isinstance(b, ast.Name) and b.id in classes and b.id != "Protocol":
                r = resolve(classes[b.id], meth)
                if r:
                    return r
        return None

    out = []
    infos = {}
    for name, c in classes.items():
        if name in enums or name == "Comm":
            continue
        ser_fn, de_fn = resolve(c, "ser"), resolve(c, "deser")
        if not ser_fn or not de_fn:
            bail(c, "class without ser/deser")
        fields, ftypes = [], {}
        for s in c.body:
            if isinstance(s, ast.AnnAssign) and isinstance(s.target, ast.Name):
                fields.append(s.target.id)
                ftypes[s.target.id] = ast.unparse(s.annotation)
        # fields of EmptyCommand style classes: none
        ser_l = parse_ser(ser_fn, enums, ftypes)
        # deser of EmptyCommand: `return cls()`
        de_l = parse_deser(de_fn, enums)
        infos[name] = (fields, ser_l, de_l)

    # tag table
    b2c = None
    for n in tree.body:
        if isinstance(n, ast.AnnAssign) and isinstance(n.target, ast.Name) and n.target.id == "b2c":
            b2c = n.value
    if not isinstance(b2c, ast.Dict):
        raise Unsupported("b2c dict literal not found")
    tags = []
    for k, v in zip(b2c.keys, b2c.values):
        if not (isinstance(k, ast.Constant) and isinstance(k.value, bytes) and len(k.value) == 1 and isinstance(v, ast.Name)):
            bail(k, "b2c entry")
        if v.id not in infos:
            bail(v, "b2c names an unknown class")
        tags.append((k.value[0], v.id))
    # base class that is only inherited from is not a message class
    bases_only = {b.id for c in classes.values() for b in c.bases if isinstance(b, ast.Name)}
    msg_classes = [n for n in infos if not (n in bases_only and n not in dict((c, t) for t, c in tags))]

    def lay(l):
        return "[" + "; ".join(f"({coq_str(f)}, {k})" for f, k in l) + "]"

    lines = [
        "(* GENERATED by /verif/translate/shm_api.py from /repo/src/cascade/shm/api.py -- do not edit *)",
        "From Coq Require Import List NArith ZArith String.",
        "From EKW Require Import Shm.Codec.",
        "Import ListNotations.",
        "Open Scope string_scope.",
        "",
    ]
    for name, (fields, ser_l, de_l) in infos.items():
        lines.append(f"Definition c_{name} : cls := {{| cname := {coq_str(name)}; cfields := [{'; '.join(coq_str(f) for f in fields)}];")
        lines.append(f"  cser := {lay(ser_l)};")
        lines.append(f"  cdeser := {lay(de_l)} |}}.")
    lines.append("")
    lines.append("Definition shm_table : table := [" + "; ".join(f"({t}%N, c_{c})" for t, c in tags) + "].")
    lines.append("Definition shm_message_classes : list cls := [" + "; ".join(f"c_{n}" for n in msg_classes) + "].")
    lines.append("")
    Path(gen).mkdir(parents=True, exist_ok=True)
    p = Path(gen) / "ShmLayouts.v"
    txt = "\n".join(lines)
    if not p.exists() or p.read_text() != txt:
        p.write_text(txt)


if __name__ == "__main__":
    try:
        main(sys.argv[1], sys.argv[2])
    except Exception as e:  # Unsupported shape, syntax error, missing file ...
        # The current shape of the source is not one this translator understands.  Install the pinned table (the
        # translation of the code as it was when the proofs were written): the theorems are then about that table and
        # ONLY the correspondence run of the check ties it to the current code (exit code 3 tells the driver so).
        # Without a pinned table: fail closed with a file that cannot compile, so that no stale table is ever used.
        p = Path(sys.argv[2]) / "ShmLayouts.v"
        p.parent.mkdir(parents=True, exist_ok=True)
        pinned = Path(__file__).parent / "pinned" / "ShmLayouts.v"
        why = ("%s: %s" % (type(e).__name__, e)).replace("\n", " ")
        if pinned.exists():
            txt = pinned.read_text()
            if not p.exists() or p.read_text() != txt:
                p.write_text(txt)
            print("FALLBACK to pinned table:", why[:500])
            sys.exit(3)
        p.write_text("(* translator failed: %s *)\nTranslator_failed_see_comment.\n" % why.replace("*)", "* )").replace("(*", "( *"))
        print("UNSUPPORTED:", why, file=sys.stderr)
        sys.exit(2)
