#!/bin/bash
# offline build of the whole Coq development (full .vo build)
set -e
cd "$(dirname "$0")"
export PYTHONPATH=/repo/src:/verif/harness PYTHONHASHSEED=0 PYTHONDONTWRITEBYTECODE=1
/venv/bin/python - <<'PY'
import sys
sys.path.insert(0, "/verif/harness")
import common
errs, fallbacks = common.run_translators()
if errs:
    print("translator errors (build continues; the affected check will report them):", errs)
common.regen_coqproject()
PY
cd coq && timeout 3000 make -k -j16 2>&1 | grep -v "^COQC\|^COQDEP" | tail -15 || true
